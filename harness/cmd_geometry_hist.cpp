// C12 — the measures a cell REPORTS (volume, area, centroid, bounding box) after a history, not only right after initialisation.
// A history is a random sequence of the operations a simulation applies to a cell: refinement passes of the repository's refiner (splits,
// collapses, swaps: faces and nodes are created and deleted), node displacements, the force phase (the product's refresh point of the cached
// geometry: apply_internal_forces), compaction (rebase).  After every force phase and after every compaction that follows one without an
// intervening move, the getters are compared with the harness' own long-double measures of the live mesh.
#include "vh.hpp"
#include "gen.hpp"
#include "oracle.hpp"
#include "local_mesh_refiner.hpp"

using namespace vh;
using orc::V3; using orc::R;

static int cmd_geometry_hist(const Args& a) {
    Agg agg;
    for (long i = a.first; i < a.first + a.cases; i++) {
        if (!a.mine(i)) continue;
        Rng g(a.seed, (uint64_t)i, 0x1c); Case c(i);
        gen::TriMesh m = gen::random_shape(g, 500); gen::jitter(m, g, g.uni(0.01, 0.05)); gen::rotate(m, gen::rot_random(g));
        const double scale = g.coin(0.5) ? 1.0 : g.logu(1e-6, 1e1); gen::scale(m, scale, scale, scale);
        const double offr = g.coin(0.3) ? 0.0 : g.logu(1e-2, 1e2); gen::translate(m, scale * offr * g.uni(-1, 1), scale * offr * g.uni(-1, 1), scale * offr * g.uni(-1, 1));
        // (the ECM class overrides the force phase with a no-op: it has no refresh point and its nodes never move in the product; not part of this workload)
        const int classes[4] = {0, 2, 3, 4}; const int cls = classes[g.range(0, 3)];
        auto ct = gen::default_cell_type(3, (short)cls); ct->bulk_modulus_ = 1; for (auto& f : ct->face_types_) f.surface_tension_ = 0.1;
        cell_ptr C;
        try { C = gen::make_cell_of_class(cls, m, 5, ct); } catch (const std::exception&) { c.v = "skip"; agg.add(c); continue; }
        for (face& f : cell_tester::faces(*C)) if (f.is_used()) f.set_face_type_id((unsigned short)g.range(0, 2));
        std::vector<double> el; { std::vector<V3> P; std::vector<orc::Tri> T; gen::extract(*C, P, T); for (auto& t : T) { unsigned v[3] = {t.a, t.b, t.c}; for (int k = 0; k < 3; k++) el.push_back((double)(P[v[k]] - P[v[(k + 1) % 3]]).norm()); } }
        std::sort(el.begin(), el.end());
        const int nst = g.range(4, 12); bool fresh = true, faces_unchanged_since_force = false; long judged = 0, ops_total = 0, probes = 0; std::string hist;
        auto judge = [&](const char* at) {
            std::vector<V3> P; std::vector<orc::Tri> T; std::vector<char> used; std::vector<unsigned> live; gen::extract(*C, P, T, &used, &live);
            orc::Geo geo = orc::geometry(P, T); if (!(geo.volume > 0) || !(geo.area > 0)) return;   // folded by the random moves: nothing to compare with
            R D = 0, rr = 0; for (unsigned k : live) { D = std::max(D, P[k].norm()); rr = std::max(rr, (P[k] - geo.centroid).norm()); }
            const R F = (R)T.size(), EPS = 2.220446e-16L;
            const R tolV = 1e-10L * geo.volume + 256 * EPS * std::sqrt(F) * 8 * rr * rr * rr + 64 * EPS * geo.area * (D + rr), tolA = 1e-10L * geo.area, tolC = 1e-10L * (D + rr);
            judged++;
            const R V = C->get_volume(), A = C->get_area(); vec3 cc = C->compute_centroid(); V3 Cc(cc.dx(), cc.dy(), cc.dz());
            agg.maxi("hist_volume_err_over_tol", (double)(std::fabs(V - geo.volume) / tolV)); agg.maxi("hist_area_err_over_tol", (double)(std::fabs(A - geo.area) / tolA)); agg.maxi("hist_centroid_err_over_tol", (double)((Cc - geo.centroid).norm() / tolC));
            if (!(std::fabs(V - geo.volume) <= tolV)) c.viol(std::string("history:volume_exact@") + at, "get_volume() is " + std::to_string((double)(V / geo.volume)) + " x the enclosed volume of the live mesh after the history " + hist);
            else if (!(std::fabs(A - geo.area) <= tolA)) c.viol(std::string("history:area_exact@") + at, "get_area() is " + std::to_string((double)(A / geo.area)) + " x the sum of the live triangle areas after the history " + hist);
            else if (!((Cc - geo.centroid).norm() <= tolC)) c.viol(std::string("history:centroid_exact@") + at, "compute_centroid() is " + std::to_string((double)((Cc - geo.centroid).norm() / rr)) + " cell radii away from the area-weighted mean of the live triangle centroids after the history " + hist);
            else { auto bb = C->get_aabb(); bool ok = true; for (int d = 0; d < 3; d++) if (!(bb[d] == (double)geo.lo[d] && bb[3 + d] == (double)geo.hi[d])) ok = false;
                if (!ok) c.viol(std::string("history:aabb_exact@") + at, "get_aabb() is not the tight box of the live nodes after the history " + hist); }
        };
        for (int s = 0; s < nst && c.v != "viol"; s++) {
            const int what = s == 0 ? 0 : (a.geti("translate_probe", 0) != 0 && g.coin(0.4)) ? (fresh ? 1 : 2) : g.range(0, 3);
            if (what == 0) {   // refinement pass with a band that collapses the shortest and splits the longest edges of the ORIGINAL mesh (later passes act on what moves produced)
                const double lmin = el[(size_t)(el.size() * g.uni(0.02, 0.2))] * 1.0001, lmax = std::max(el[(size_t)(el.size() * g.uni(0.7, 0.999))], 2.2 * lmin);
                long before = (long)C->get_nb_of_faces();
                try { local_mesh_refiner lmr(lmin, lmax, g.coin(0.6)); lmr.refine_mesh(C); } catch (const std::exception&) { hist += "R!"; break; }
                ops_total += std::labs((long)C->get_nb_of_faces() - before); hist += "R"; faces_unchanged_since_force = false;
            } else if (what == 1) {   // the nodes move
                std::vector<V3> P; std::vector<orc::Tri> T; std::vector<char> used; std::vector<unsigned> live; gen::extract(*C, P, T, &used, &live);
                std::vector<double> minl(P.size(), 1e300); for (auto& t : T) { unsigned v[3] = {t.a, t.b, t.c}; for (int k = 0; k < 3; k++) { double l = (double)(P[v[k]] - P[v[(k + 1) % 3]]).norm(); minl[v[k]] = std::min(minl[v[k]], l); minl[v[(k + 1) % 3]] = std::min(minl[v[(k + 1) % 3]], l); } }
                V3 ctr; for (unsigned k : live) ctr += P[k]; ctr = ctr / (R)live.size(); const double st[3] = {g.uni(0.8, 1.25), g.uni(0.8, 1.25), g.uni(0.8, 1.25)}, nz = g.uni(0, 0.1);
                gen::Rot rot = g.coin(0.3) ? gen::rot_random(g) : gen::rot_identity(); const double sh[3] = {scale * g.uni(-1, 1), scale * g.uni(-1, 1), scale * g.uni(-1, 1)};
                auto& nl = cell_tester::nodes(*C); for (unsigned k : live) { V3 x = P[k] - ctr; auto w = gen::rapply(rot, {(double)x.x * st[0], (double)x.y * st[1], (double)x.z * st[2]});
                    cell_tester::pos(nl[k]).reset((double)ctr.x + w[0] + sh[0] + nz * minl[k] * g.uni(-1, 1), (double)ctr.y + w[1] + sh[1] + nz * minl[k] * g.uni(-1, 1), (double)ctr.z + w[2] + sh[2] + nz * minl[k] * g.uni(-1, 1)); }
                fresh = false; hist += "M";
                // C14: the centroid the division code asks for at this point (nodes moved by the integrator since the force phase, faces unchanged
                // since then) must follow a translation of the cell: shift every node by t and ask again
                if (a.geti("translate_probe", 0) != 0 && faces_unchanged_since_force && c.v != "viol") {
                    vec3 c1 = C->compute_centroid(); R rad = 0; for (unsigned k : live) rad = std::max(rad, (P[k] - ctr).norm());
                    const double tm = (double)rad * g.logu(1, 300); double d[3] = {g.normal(), g.normal(), g.normal()}; const double dn = std::sqrt(d[0] * d[0] + d[1] * d[1] + d[2] * d[2]); for (double& x : d) x *= tm / dn;
                    R Dmax = 0; for (unsigned k : live) { const vec3& x = nl[k].pos(); cell_tester::pos(nl[k]).reset(x.dx() + d[0], x.dy() + d[1], x.dz() + d[2]); Dmax = std::max(Dmax, V3(x.dx() + d[0], x.dy() + d[1], x.dz() + d[2]).norm()); }
                    vec3 c2 = C->compute_centroid(); V3 dev(c2.dx() - c1.dx() - d[0], c2.dy() - c1.dy() - d[1], c2.dz() - c1.dz() - d[2]);
                    const R tolT = 1e-9L * (Dmax + V3(c1.dx(), c1.dy(), c1.dz()).norm() + rad); probes++;
                    agg.maxi("translate_probe_dev_over_tol", (double)(dev.norm() / tolT));
                    if (!(dev.norm() <= tolT)) c.viol("history:centroid_does_not_follow_translation", "the centroid of a cell whose nodes moved since the last force phase changes by " + std::to_string((double)(dev.norm() / rad)) + " cell radii more than the translation applied to the cell (" + std::to_string(tm / (double)rad) + " radii) after the history " + hist);
                    hist += "t"; }
            } else if (what == 2) {   // force phase: refresh point of the product
                C->apply_internal_forces(0.0); for (node& n : cell_tester::nodes(*C)) if (n.is_used()) n.set_force(vec3(0, 0, 0)); fresh = true; faces_unchanged_since_force = true; hist += "F"; judge("force_phase");
            } else {   // compaction
                try { C->rebase(); } catch (const std::exception&) { hist += "C!"; break; } hist += "C"; faces_unchanged_since_force = false;
                if (fresh) { faces_unchanged_since_force = true; C->apply_internal_forces(0.0); for (node& n : cell_tester::nodes(*C)) if (n.is_used()) n.set_force(vec3(0, 0, 0)); hist += "F"; judge("compaction_then_force_phase"); }
            }
        }
        // (a pass or a compaction that gave up with an exception leaves the cell in an unspecified state: the history ends there)
        const bool gave_up = !hist.empty() && hist.back() == '!';
        if (c.v != "viol" && !gave_up) { C->apply_internal_forces(0.0); hist += "F"; judge("final_force_phase"); }
        if (gave_up) agg.bin("hist_ended_by_refiner_exception");
        c.nontrivial = judged > 0 && ops_total > 0; c.sig = hash_combine(hash_str(hist), (uint64_t)C->get_nb_of_faces());
        c.obs.s("shape", m.name).s("history", hist).i("class", cls).i("judged", judged).i("faces_end", (long)C->get_nb_of_faces()).d("scale", scale);
        agg.bin("hist_judged_states", judged); agg.bin("hist_translation_probes", probes); agg.bin("hist_cells"); if (ops_total > 0) agg.bin("hist_cells_with_remeshing");
        agg.add(c);
    }
    agg.flush(a.shard_i);
    return 0;
}
static Reg r_gh("geometry_hist", cmd_geometry_hist);
