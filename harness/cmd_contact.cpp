// C06 / C07 — contact detection completeness and contact-force rules, for the contact model selected at compile time.
//   mode=tissue : random tissues; (C06-A) every node-face pair within the cut-off (and passing the model's pre-gates) is presented
//                 to the contact rules (hook H6); (C06-B) forces equal those of the same rules applied to all pairs without the
//                 acceleration structure; (C07) no net force, no force / coupling beyond the cut-offs or within one cell
//   mode=micro  : one node against one triangle of another cell: reciprocity, range, direction on the forbidden side
#include "vh.hpp"
#include "tissue.hpp"
#include "verif_hooks.hpp"
#include "contact_node_node_via_coupling.hpp"
#include "contact_node_face_via_spring.hpp"
#include "contact_face_face_via_coupling.hpp"
#include "cell_divider.hpp"
#include "local_mesh_refiner.hpp"
#include <omp.h>
#include <unordered_set>

using namespace vh;
using orc::V3; using orc::R;

namespace {

#if CONTACT_MODEL_INDEX == 0
typedef contact_node_face_via_spring model_t;
static void apply_rule(const model_t& m, cell_ptr c1, cell_ptr c2, node& n, face* f) { (void)c2; m.apply_contact_forces(c1, n, f); }
#elif CONTACT_MODEL_INDEX == 1
typedef contact_node_node_via_coupling model_t;
static void apply_rule(const model_t& m, cell_ptr c1, cell_ptr c2, node& n, face* f) { m.resolve_contact(c1, c2, n, f); }
#else
typedef contact_face_face_via_coupling model_t;
static void apply_rule(const model_t& m, cell_ptr c1, cell_ptr c2, node& n, face* f) { m.resolve_contact(c1, c2, n, f); }
#endif
static const double COS90 = std::cos(90 * M_PI / 180.0);

static V3 vpos(const node& n) { return V3(n.pos().dx(), n.pos().dy(), n.pos().dz()); }
static V3 vfor(const node& n) { return V3(n.force().dx(), n.force().dy(), n.force().dz()); }

struct PairKey { uint32_t c1, n, c2, f; bool operator==(const PairKey& o) const { return c1 == o.c1 && n == o.n && c2 == o.c2 && f == o.f; } };
struct PairHash { size_t operator()(const PairKey& k) const { return (size_t)hash_combine(((uint64_t)k.c1 << 32) | k.n, ((uint64_t)k.c2 << 32) | k.f); } };
static std::vector<std::vector<std::array<const void*, 4>>> g_pairs(64);
static void on_pair(const cell* c1, const node* n, const cell* c2, const face* f) { int t = omp_get_thread_num(); if (t >= 0 && t < 64) g_pairs[t].push_back({c1, n, c2, f}); }

// ---- tissue generator (dimensionless units, cell size ~1) ---------------------------------------------------------------
struct Tissue { std::vector<gen::TriMesh> meshes; std::vector<int> cls; std::vector<int> type_of; std::vector<cell_type_parameters> types; global_simulation_parameters P; bool has_epi_epi = false, uniform_strengths = true; std::string family; double offset = 0; std::vector<char> premerge; };

static cell_type_parameters ctype(int cls, Rng& g, bool same_strengths) {
    cell_type_parameters c = *gen::default_cell_type(cls == 0 ? 3 : 1, (short)cls); c.name_ = "c" + std::to_string(cls);
    c.surface_coupling_max_curvature_ = g.coin(0.2) ? g.logu(0.5, 5) : 1e300; c.bulk_modulus_ = 1; c.mass_density_ = 1;
    double adh = g.coin(0.15) ? 0 : g.logu(0.1, 10), rep = g.coin(0.1) ? 0 : g.logu(0.1, 10);
    for (size_t k = 0; k < c.face_types_.size(); k++) { auto& f = c.face_types_[k]; f.face_type_global_id_ = (short)(cls == 0 ? k : cls + 2); f.adherence_strength_ = same_strengths ? adh : (g.coin(0.2) ? 0 : g.logu(0.1, 10)); f.repulsion_strength_ = same_strengths ? rep : (g.coin(0.2) ? 0 : g.logu(0.1, 10)); }
    return c;
}

static Tissue make_tissue(Rng& g, int max_cells, bool no_epi_pairs = false, bool dense = false) {
    Tissue t; int fam = dense ? 0 : g.range(0, 5); t.uniform_strengths = g.coin(0.6);
    const bool pow2 = g.coin(0.3);
    double lmin = pow2 ? std::ldexp(1.0, g.range(-5, -2)) : g.logu(0.03, 0.3), ca = pow2 ? std::ldexp(1.0, g.range(-5, -2)) : g.logu(0.02, 0.3), cr = pow2 ? std::ldexp(1.0, g.range(-5, -2)) : g.logu(0.02, 0.3);
    t.P.min_edge_len_ = lmin; t.P.contact_cutoff_adhesion_ = ca; t.P.contact_cutoff_repulsion_ = cr; t.P.time_step_ = 1; t.P.damping_coefficient_ = 1; t.P.simulation_duration_ = 1; t.P.sampling_period_ = 1;
    auto add = [&](const gen::TriMesh& m, int cls) { t.meshes.push_back(m); t.cls.push_back(cls); };
    auto blob = [&](double r, double x, double y, double z) { gen::TriMesh m; int k = g.range(0, 4); if (k == 4) { /* a few hundred nodes, any count, in no particular order: work shared out per block of nodes must reach the last node too */ m = gen::uvsphere(g.range(17, 40), g.range(12, 22)); gen::permute(m, g); } else if (k == 0) m = gen::icosphere(g.range(1, 2)); else if (k == 1) m = gen::box(g.range(1, 4), 1, g.uni(0.6, 1.2), g.uni(0.6, 1.2)); else if (k == 2) m = gen::uvsphere(g.range(5, 12), g.range(4, 8)); else { m = gen::icosphere(2); gen::star_deform(m, g, 0.2); }
        if (g.coin(0.7)) gen::jitter(m, g, 0.04); gen::rotate(m, gen::rot_random(g)); gen::scale(m, r, r, r); gen::translate(m, x, y, z); return m; };
    bool have_epi = false;
    auto rcls = [&]() { double u = g.uni(); int c = u < 0.4 ? 0 : u < 0.55 ? 1 : u < 0.7 ? 2 : u < 0.85 ? 3 : 4; if (no_epi_pairs && c == 0) { if (have_epi) c = 2; have_epi = true; } return c; };
    // two epithelial boxes on exact coordinates facing each other across a thin gap, the second shifted by half a lattice step: every node of one face is bitwise
    // equidistant from two nodes of the other (within the adhesion cut-off) while the third node of those faces lies beyond it
    const bool facing = !no_epi_pairs && !dense && g.coin(0.08);
    if (facing) { t.family = "facing_lattice_boxes"; const int n = 8; const double h = 2.0 / n, gap = 0.2 * h;
        gen::TriMesh A = gen::box(n, 1, 1, 1), B = gen::box(n, 1, 1, 1); gen::translate(B, 2 + gap, h / 2, g.coin() ? h / 2 : 0.0); if (g.coin()) gen::permute(B, g);
        add(A, 0); add(B, 0); lmin = h / 2; ca = 0.8 * h; cr = g.coin() ? 0.3 * h : 0.8 * h; t.P.min_edge_len_ = lmin; t.P.contact_cutoff_adhesion_ = ca; t.P.contact_cutoff_repulsion_ = cr; }
    else if (fam <= 2) { t.family = "cluster"; int n = dense ? max_cells : g.range(2, max_cells); double spread = std::cbrt((double)n) * (dense ? g.uni(0.45, 0.6) : g.uni(0.7, 1.3));
        for (int k = 0; k < n; k++) add(blob(g.uni(0.4, 0.8), g.uni(-spread, spread), g.uni(-spread, spread), g.uni(-spread, spread)), rcls()); }
    else if (fam == 3) { t.family = "nucleus_in_cell"; gen::TriMesh outer = gen::icosphere(g.range(2, 3)); gen::scale(outer, 1, 1, 1); add(outer, 0); double r = g.uni(0.4, 0.95); add(blob(r, g.uni(-0.1, 0.1) * (1 - r), 0, 0), 3); if (g.coin()) add(blob(0.6, 1.6 + g.uni(-0.2, 0.2), 0, 0), rcls()); }
    else if (fam == 4) { t.family = "cell_in_ecm"; gen::TriMesh bx = gen::box(g.range(2, 5), 1, 1, 1); add(bx, 1); double r = g.uni(0.5, 1.05); add(blob(r, g.uni(-0.1, 0.1), g.uni(-0.1, 0.1), 0), 0); if (g.coin()) add(blob(0.5, g.uni(-0.4, 0.4), g.uni(-0.4, 0.4), g.uni(-0.4, 0.4)), 0); }
    else { t.family = "row_touching"; int n = g.range(2, max_cells); double x = 0; for (int k = 0; k < n; k++) { double r = g.uni(0.4, 0.7); x += r; add(blob(r, x, g.uni(-0.1, 0.1), g.uni(-0.1, 0.1)), rcls()); x += r + g.uni(-0.15, 0.2) * r; } }
    // position relative to the origin: far from / straddling / exact multiples of the voxel size
    double voxel = 3 * lmin + 2 * std::max(ca, cr); int om = g.range(0, 3); V3 off;
    if (facing) om = 0;   // the exact coordinates stay as they are
    if (om == 1) off = V3(g.uni(-1, 1), g.uni(-1, 1), g.uni(-1, 1)) * (g.coin(0.5) ? g.logu(10, 1e4) : g.logu(1e4, 3e6)); else if (om == 2) off = V3(voxel * g.range(-50, 50), voxel * g.range(-50, 50), voxel * g.range(-50, 50)); else if (om == 3) off = V3(-0.5, 0.3, 0.1);
    t.offset = (double)off.norm();
    for (auto& m : t.meshes) gen::translate(m, (double)off.x, (double)off.y, (double)off.z);
    // a few nodes exactly on voxel boundaries of the grid anchored at the (unknown to us) tissue minimum: snap coordinates to multiples of voxel/2
    if (g.coin(0.3) && !facing) for (auto& m : t.meshes) for (auto& p : m.P) if (g.coin(0.05)) { int d = g.range(0, 2); p[d] = std::round(p[d] / (voxel / 2)) * (voxel / 2); }
    // cell types: one per class present
    std::map<int, int> idx; for (int c : t.cls) if (!idx.count(c)) { idx[c] = (int)t.types.size(); t.types.push_back(ctype(c, g, t.uniform_strengths)); }
    for (int c : t.cls) t.type_of.push_back(idx[c]);
    int nepi = 0; for (int c : t.cls) if (c == 0) nepi++; t.has_epi_epi = nepi >= 2;
    // what the refinement phase of the same iteration leaves behind: cells with unused node / face slots in the middle of their lists
    t.premerge.assign(t.meshes.size(), 0); if (g.coin(0.4)) for (auto& pm : t.premerge) pm = g.coin(0.6);
    return t;
}

static std::vector<cell_ptr> build(const Tissue& t, std::vector<cell_type_param_ptr>* keep = nullptr) {
    std::vector<cell_type_param_ptr> tp; for (auto& c : t.types) tp.push_back(std::make_shared<cell_type_parameters>(c));
    std::vector<cell_ptr> L; for (size_t k = 0; k < t.meshes.size(); k++) { cell_ptr c = gen::make_cell_of_class(t.cls[k], t.meshes[k], (unsigned)k, tp[t.type_of[k]]); c->set_local_id((unsigned)k); L.push_back(c); }
    // collapse the shortest edges of the chosen cells with the repository's refiner (as solver::run_iteration does right before the contact phase,
    // without compaction): unused slots remain in the node and face lists
    for (size_t k = 0; k < L.size(); k++) if (k < t.premerge.size() && t.premerge[k]) { const auto& m = t.meshes[k]; double emin = 1e300;
        for (auto& tr : m.T) for (int e = 0; e < 3; e++) { const auto &a = m.P[tr[e]], &b = m.P[tr[(e + 1) % 3]]; emin = std::min(emin, std::sqrt((a[0] - b[0]) * (a[0] - b[0]) + (a[1] - b[1]) * (a[1] - b[1]) + (a[2] - b[2]) * (a[2] - b[2]))); }
        local_mesh_refiner lmr(emin * 1.1, 1e9); lmr.refine_mesh(L[k]); L[k]->update_all_face_normals_and_areas(); }
    // what the previous iteration leaves behind: node normals and curvatures from the force phase; then empty accumulators
    for (auto& c : L) { c->apply_internal_forces(0.0); for (node& n : cell_tester::nodes(*c)) if (n.is_used()) { n.set_force(vec3(0, 0, 0));
#if DYNAMIC_MODEL_INDEX == 0
            n.set_momentum(vec3(0, 0, 0));
#endif
        } }
    if (keep) *keep = tp; return L;
}

static bool pregate_node(const cell& c, const node& n) {
#if CONTACT_MODEL_INDEX == 0
    (void)c; (void)n; return true;
#else
    return n.get_curvature() < c.get_cell_type()->surface_coupling_max_curvature_;
#endif
}
static bool pregate_pair(const node& n, const face& f) {
#if CONTACT_MODEL_INDEX == 0
    (void)n; (void)f; return true;
#else
    return n.get_normal().dot(f.get_normal()) < COS90;
#endif
}

static uint64_t g_div_seed = 0;
static uint64_t div_rng(int site, uint64_t ctx) { return hash_combine(hash_combine(g_div_seed, (uint64_t)site + 31), ctx); }
struct FI { V3 a, b, c, ctr; R rad; const face* f; };
struct Brute { long within = 0, missing = 0, gated_out = 0, missing_forbidden = 0; std::string msg, msg_forbidden; std::vector<std::vector<char>> reach; std::vector<std::vector<FI>> F; };
// every cross-cell (node, face) pair closer than the largest cut-off (minus the grey zone) that passes the model's own pre-gates must be in P
static Brute brute(const std::vector<cell_ptr>& A, const std::vector<std::vector<V3>>& X0, const std::unordered_set<PairKey, PairHash>& P, const Tissue& t, double cmax, R GZ) {
    Brute b; long& within = b.within; long& missing = b.missing; long& gated_out = b.gated_out; std::string& miss_msg = b.msg; auto& reach = b.reach; auto& F = b.F;
    reach.resize(A.size()); for (size_t k = 0; k < A.size(); k++) reach[k].assign(cell_tester::nodes(*A[k]).size(), 0);
    F.resize(A.size());
    for (size_t k = 0; k < A.size(); k++) for (const face& f : cell_tester::faces(*A[k])) if (f.is_used()) { FI x; x.a = X0[k][cell_tester::n1(f)]; x.b = X0[k][cell_tester::n2(f)]; x.c = X0[k][cell_tester::n3(f)]; x.ctr = (x.a + x.b + x.c) / 3; x.rad = std::max({(x.a - x.ctr).norm(), (x.b - x.ctr).norm(), (x.c - x.ctr).norm()}); x.f = &f; F[k].push_back(x); }
    for (size_t k1 = 0; k1 < A.size(); k1++) { const auto& nl = cell_tester::nodes(*A[k1]);
        for (size_t ni = 0; ni < nl.size(); ni++) { const node& n = nl[ni]; if (!n.is_used()) continue; const V3& p = X0[k1][ni]; bool g1 = pregate_node(*A[k1], n);
            for (size_t k2 = 0; k2 < A.size(); k2++) { if (k2 == k1) continue;
                for (const FI& x : F[k2]) { if ((p - x.ctr).norm() > x.rad + 2 * cmax) continue; V3 q; R d2 = orc::closest_on_triangle(p, x.a, x.b, x.c, q); R d = std::sqrt(d2);
                    if (d < cmax * (1 + GZ)) { reach[k1][ni] = 1; reach[k2][cell_tester::n1(*x.f)] = 1; reach[k2][cell_tester::n2(*x.f)] = 1; reach[k2][cell_tester::n3(*x.f)] = 1; }
                    if (!(d < cmax * (1 - GZ))) continue; within++;
                    if (!g1 || !pregate_pair(n, *x.f)) { gated_out++; continue; }
                    if (!P.count({(uint32_t)k1, (uint32_t)ni, (uint32_t)k2, x.f->get_local_id()})) {
                        // C07: a node on the forbidden side of this face (straight below / above its interior, within the repulsion range, repulsive face type) that never
                        // reaches the contact rule is not pushed back by it
                        { int region = -1; V3 q2; orc::closest_on_triangle(p, x.a, x.b, x.c, q2, &region); V3 nrm = (x.b - x.a).cross(x.c - x.a); const R nn = nrm.norm(); const int cl1 = t.cls[k1], cl2 = t.cls[k2];
                          const bool inverted = (cl1 == 0 && cl2 == 1) || (cl1 == 3 && cl2 == 0); const R side = nn > 0 ? (p - q2).dot(nrm) / nn : 0; const bool forbidden = inverted ? side > 0 : side < 0;
                          const R rep_range = (CONTACT_MODEL_INDEX == 0) ? t.P.contact_cutoff_repulsion_ : cmax; const double krep = A[k2]->get_cell_type()->face_types_[cell_tester::type_id(*x.f)].repulsion_strength_;
                          if (region == 0 && forbidden && krep > 0 && std::fabs(side) > 1e-9L * (x.a - x.b).norm() && d < rep_range * (1 - GZ)) { b.missing_forbidden++;
                              if (b.msg_forbidden.empty()) b.msg_forbidden = "node " + std::to_string(ni) + " of cell " + std::to_string(k1) + " (class " + std::to_string(cl1) + ") lies " + std::to_string((double)(d / rep_range)) + " repulsion ranges on the forbidden side of face " + std::to_string(x.f->get_local_id()) + " of cell " + std::to_string(k2) + " (class " + std::to_string(cl2) + "), over the interior of the triangle, and the pair never reaches the contact rule: nothing pushes the node back"; } }
                        missing++; if (miss_msg.empty()) { miss_msg = "node " + std::to_string(ni) + " of cell " + std::to_string(k1) + " (class " + std::to_string(t.cls[k1]) + ") is " + std::to_string((double)(d / cmax)) + " cut-offs from face " + std::to_string(x.f->get_local_id()) + " of cell " + std::to_string(k2) + " but the pair was never presented to the contact rules"; } } } } } }
    return b;
}

static std::string tissue_case(const Args& a, long i) {
    Rng g(a.seed, (uint64_t)i, 0x06); Case c(i);
    Tissue t; std::vector<cell_ptr> A;
    const bool no_epi = a.geti("no_epi_pairs", 0) != 0, dense = a.geti("dense", 0) != 0; const int repeat = (int)a.geti("repeat", 1);
    try { t = make_tissue(g, (int)a.geti("max_cells", 8), no_epi, dense); A = build(t); } catch (const std::exception& e) { c.v = "skip"; c.msg = std::string("generator mesh rejected: ") + e.what(); return c.line(); }
    const double cmax = std::max(t.P.contact_cutoff_adhesion_, t.P.contact_cutoff_repulsion_);
    // grey zone around the cut-offs: 1e-9 relative plus the rounding of a distance formed from coordinates of magnitude |offset| (far tissues)
    const R GZ = 1e-9L + 256 * 2.220446e-16L * (R)(t.offset + 10.0) / (R)std::min({t.P.contact_cutoff_adhesion_, t.P.contact_cutoff_repulsion_});
    // positions before the run (model 1/2 snap coupled pairs together afterwards)
    std::vector<std::vector<V3>> X0(A.size()); for (size_t k = 0; k < A.size(); k++) for (const node& n : cell_tester::nodes(*A[k])) X0[k].push_back(vpos(n));
    for (auto& v : g_pairs) v.clear(); verif::get().contact_pair = on_pair;
    omp_set_num_threads(a.threads); model_t model(t.P); model.run(A); verif::get().contact_pair = nullptr;
    std::map<const cell*, uint32_t> cidx; for (size_t k = 0; k < A.size(); k++) cidx[A[k].get()] = (uint32_t)k;
    std::unordered_set<PairKey, PairHash> P; size_t presented = 0;
    for (auto& v : g_pairs) for (auto& p : v) { const cell* c1 = (const cell*)p[0]; const cell* c2 = (const cell*)p[2]; const node* n = (const node*)p[1]; const face* f = (const face*)p[3]; P.insert({cidx[c1], n->get_local_id(), cidx[c2], f->get_local_id()}); presented++; }
    // ---- brute force over all cross-cell node/face pairs (bounding-sphere prefilter at 2 cut-offs, independent of any grid) -------------
    Brute br = brute(A, X0, P, t, cmax, GZ);
    long within = br.within, missing = br.missing, gated_out = br.gated_out; std::vector<std::vector<char>>& reach = br.reach; std::vector<std::vector<FI>>& F = br.F; std::string& miss_msg = br.msg;
    if (br.missing_forbidden && a.geti("prefer_c07", 0)) c.viol("c07.node_on_forbidden_side_not_pushed_back", br.msg_forbidden + " (" + std::to_string(br.missing_forbidden) + " such pairs)");
    if (missing) c.viol("c06.pair_within_cutoff_not_presented", miss_msg + " (" + std::to_string(missing) + " such pairs)");
    // ---- C07 at tissue level -----------------------------------------------------------------------------------------------------------------
    V3 sum; R sabs = 0, fmax = 0; long forced = 0;
    for (size_t k = 0; k < A.size(); k++) { const auto& nl = cell_tester::nodes(*A[k]); for (size_t ni = 0; ni < nl.size(); ni++) if (nl[ni].is_used()) { V3 f = vfor(nl[ni]); R fn = f.norm(); sum += f; sabs += fn; fmax = std::max(fmax, fn); if (fn > 0) { forced++; if (!reach[k][ni]) c.viol("c07.force_beyond_cutoff", "a node carries a contact force although no element of another cell lies within the interaction cut-off of it or of its faces"); } } }
    if (sabs > 0 && !(sum.norm() <= 1e-10L * sabs)) c.viol("c07.net_contact_force", "contact forces do not add up to zero over the tissue: |sum F| = " + std::to_string((double)(sum.norm() / sabs)) + " x sum |F|");
    if (A.size() == 1 && sabs > 0) c.viol("c07.force_within_one_cell", "a single cell received contact forces from itself");
    long couplings = 0;
#if CONTACT_MODEL_INDEX == 1 || CONTACT_MODEL_INDEX == 2
    for (size_t k = 0; k < A.size(); k++) { const auto& nl = cell_tester::nodes(*A[k]); for (size_t ni = 0; ni < nl.size(); ni++) if (nl[ni].is_used()) {
            std::vector<std::pair<unsigned, unsigned>> cps;
#if CONTACT_MODEL_INDEX == 1
            if (cell_tester::coupled(nl[ni]).has_value()) cps.push_back(cell_tester::coupled(nl[ni]).value());
#else
            for (auto& kv : cell_tester::coupled_map(nl[ni])) cps.push_back({kv.first, kv.second.first});
#endif
            for (auto& cp : cps) { couplings++;
                if (cp.first == k) { c.viol("c07.coupling_within_one_cell", "a node is coupled to a node of its own cell"); continue; }
                if (cp.first >= A.size() || cp.second >= X0[cp.first].size()) { c.viol("c07.coupling_out_of_range", "a coupling refers to a non-existent cell or node"); continue; }
                R d = (X0[k][ni] - X0[cp.first][cp.second]).norm(); if (!(d < t.P.contact_cutoff_adhesion_ * (1 + GZ))) c.viol("c07.coupling_beyond_adhesion_cutoff", "two nodes were coupled although they are " + std::to_string((double)(d / t.P.contact_cutoff_adhesion_)) + " adhesion cut-offs apart");
                if (t.cls[k] != 0 || t.cls[cp.first] != 0) c.viol("c07.coupling_of_non_epithelial_cells", "a coupling was created between cells that are not both epithelial"); } } }
#endif
    // ---- C06-B: same rules on all pairs, single threaded, no acceleration structure ------------------------------------------------------------
    bool didB = false; R maxdiff = 0;
    bool okB = true;
#if CONTACT_MODEL_INDEX == 0
    { bool epi = false; for (int cl : t.cls) if (cl == 0) epi = true; okB = !epi || t.uniform_strengths; }
#else
    okB = !t.has_epi_epi;
#endif
    if (okB && c.v != "viol") {
        std::vector<cell_ptr> B = build(t); omp_set_num_threads(1); model_t mb(t.P); didB = true;
        for (size_t k1 = 0; k1 < B.size(); k1++) { auto& nl = cell_tester::nodes(*B[k1]);
            for (size_t ni = 0; ni < nl.size(); ni++) { node& n = nl[ni]; if (!n.is_used() || !pregate_node(*B[k1], n)) continue; V3 p = vpos(n);
                for (size_t k2 = 0; k2 < B.size(); k2++) { if (k2 == k1) continue; auto& fl = cell_tester::faces(*B[k2]); size_t fi = 0;
                    for (face& f : fl) { if (!f.is_used()) continue; const FI& x = F[k2][fi++]; if ((p - x.ctr).norm() > x.rad + 2 * cmax) continue; if (!pregate_pair(n, f)) continue; apply_rule(mb, B[k1], B[k2], n, &f); } } } }
        for (size_t k = 0; k < A.size(); k++) { const auto& na = cell_tester::nodes(*A[k]); const auto& nb = cell_tester::nodes(*B[k]); for (size_t ni = 0; ni < na.size(); ni++) if (na[ni].is_used()) { R d = (vfor(na[ni]) - vfor(nb[ni])).norm(); maxdiff = std::max(maxdiff, d); } }
        R fscale = std::max(fmax, (R)1e-300);
        if (!(maxdiff <= 1e-9L * fscale)) c.viol("c06.forces_differ_from_all_pairs_evaluation", "contact forces computed through the spatial grid differ from the same rules applied to all node-face pairs (max difference " + std::to_string((double)(maxdiff / fscale)) + " of the largest force)");
    }
    // ---- repeated evaluation on fresh copies with all threads: a lost update in a concurrent force accumulation shows as a net force -------------
    long repeats_done = 0;
    for (int rp = 1; rp < repeat && c.v != "viol"; rp++) { std::vector<cell_ptr> Rr = build(t); omp_set_num_threads(a.threads); model_t mr(t.P); mr.run(Rr); repeats_done++;
        V3 s2; R sa2 = 0; for (auto& cp : Rr) for (const node& n : cell_tester::nodes(*cp)) if (n.is_used()) { V3 f = vfor(n); s2 += f; sa2 += f.norm(); }
        if (sa2 > 0 && !(s2.norm() <= 1e-10L * sa2)) c.viol("c07.net_contact_force", "contact forces do not add up to zero over the tissue in repetition " + std::to_string(rp) + " with " + std::to_string(a.threads) + " threads: |sum F| = " + std::to_string((double)(s2.norm() / sa2)) + " x sum |F|"); }
    // ---- second contact phase after the cells were pulled apart and every node made ineligible for coupling: nothing may survive -----------------
    long phase2_couplings = 0; bool did_phase2 = false;
#if CONTACT_MODEL_INDEX == 1 || CONTACT_MODEL_INDEX == 2
    if (couplings > 0 && c.v != "viol") { did_phase2 = true;
        V3 ctr; long nn = 0; for (size_t k = 0; k < A.size(); k++) for (const node& n : cell_tester::nodes(*A[k])) if (n.is_used()) { ctr += vpos(n); nn++; } ctr = ctr / (R)nn;
        // move every cell away from the tissue centre by 4x its offset (cells separate by far more than the cut-offs), make curvature thresholds 0
        for (size_t k = 0; k < A.size(); k++) { V3 cc; long m = 0; for (const node& n : cell_tester::nodes(*A[k])) if (n.is_used()) { cc += vpos(n); m++; } cc = cc / (R)m; V3 sh = (cc - ctr) * 4 + V3(30.0 * (double)k, 0, 0);
            for (node& n : cell_tester::nodes(*A[k])) if (n.is_used()) { V3 x = vpos(n) + sh; cell_tester::pos(n).reset((double)x.x, (double)x.y, (double)x.z); }
            A[k]->get_cell_type()->surface_coupling_max_curvature_ = 0.0; }
        for (auto& cp : A) { cp->apply_internal_forces(0.0); for (node& n : cell_tester::nodes(*cp)) if (n.is_used()) n.set_force(vec3(0, 0, 0)); }
        std::vector<std::vector<V3>> X1(A.size()); for (size_t k = 0; k < A.size(); k++) for (const node& n : cell_tester::nodes(*A[k])) X1[k].push_back(vpos(n));
        omp_set_num_threads(a.threads); model.run(A);
        for (size_t k = 0; k < A.size(); k++) { const auto& nl = cell_tester::nodes(*A[k]); for (size_t ni = 0; ni < nl.size(); ni++) if (nl[ni].is_used()) {
                std::vector<std::pair<unsigned, unsigned>> cps;
#if CONTACT_MODEL_INDEX == 1
                if (cell_tester::coupled(nl[ni]).has_value()) cps.push_back(cell_tester::coupled(nl[ni]).value());
#else
                for (auto& kv : cell_tester::coupled_map(nl[ni])) cps.push_back({kv.first, kv.second.first});
#endif
                for (auto& cp : cps) { phase2_couplings++; R d = (cp.first < A.size() && cp.second < X1[cp.first].size()) ? (X1[k][ni] - X1[cp.first][cp.second]).norm() : (R)INFINITY;
                    if (!(d < t.P.contact_cutoff_adhesion_ * (1 + GZ))) c.viol("c07.coupling_beyond_adhesion_cutoff:after_cells_moved_apart", "after the cells were moved apart a node is still coupled to a node " + std::to_string((double)(d / t.P.contact_cutoff_adhesion_)) + " adhesion cut-offs away");
                    if (!(vpos(nl[ni]) - X1[k][ni]).norm() == 0 && d > t.P.contact_cutoff_adhesion_) c.viol("c07.node_displaced_by_stale_coupling", "a node was moved by a coupling to a node beyond the cut-off"); } } }
    }
#endif
    // ---- the solver keeps ONE model object and calls run() at every iteration: evaluate a second tissue with the SAME object (the first tissue
    //      turned by a cyclic permutation of the axes and shifted: other per-axis voxel counts with the same total)
    long reuse_within = 0; bool did_reuse = false;
    if (c.v != "viol" && a.geti("reuse", 1) != 0) { did_reuse = true;
        Tissue t2 = t; const int perm = g.range(1, 2); const double sh[3] = {g.uni(-2, 2), g.uni(-2, 2), g.uni(-2, 2)};
        for (auto& m : t2.meshes) for (auto& p : m.P) { std::array<double, 3> q = p; for (int d = 0; d < 3; d++) p[d] = q[(d + perm) % 3] + sh[d]; }
        std::vector<cell_ptr> A2;
        try { A2 = build(t2); } catch (const std::exception&) { did_reuse = false; }
        if (did_reuse) {
            std::vector<std::vector<V3>> X2(A2.size()); for (size_t k = 0; k < A2.size(); k++) for (const node& n : cell_tester::nodes(*A2[k])) X2[k].push_back(vpos(n));
            for (auto& v : g_pairs) v.clear(); verif::get().contact_pair = on_pair; omp_set_num_threads(a.threads); model.run(A2); verif::get().contact_pair = nullptr;
            std::map<const cell*, uint32_t> cidx2; for (size_t k = 0; k < A2.size(); k++) cidx2[A2[k].get()] = (uint32_t)k;
            std::unordered_set<PairKey, PairHash> P2;
            for (auto& v : g_pairs) for (auto& p : v) { const cell* c1 = (const cell*)p[0]; const cell* c2 = (const cell*)p[2]; const node* n = (const node*)p[1]; const face* f = (const face*)p[3]; P2.insert({cidx2[c1], n->get_local_id(), cidx2[c2], f->get_local_id()}); }
            Brute b2 = brute(A2, X2, P2, t2, cmax, GZ); reuse_within = b2.within;
            if (b2.missing) c.viol("c06.pair_within_cutoff_not_presented:model_object_reused", b2.msg + " (" + std::to_string(b2.missing) + " such pairs) in the second evaluation made with the same contact model object on a re-oriented tissue");
        }
    }
    // ---- a tissue whose cells come out of the repository's own division code (two rounds of cell_divider::run on the epithelial cells: the ids
    //      and list positions are the divider's): the daughters touch along their interfaces, every pair in range must be presented
    long div_within = 0, div_cells = 0;
    if (c.v != "viol" && a.geti("divide", 1) != 0 && t.meshes.size() <= 4 && g.coin(0.35)) {
        bool any_epi = false; for (int cl : t.cls) if (cl == 0) any_epi = true;
        if (any_epi) {
            g_div_seed = hash_combine(a.seed, (uint64_t)i); verif::get().rng_seed = div_rng;
            std::vector<cell_type_param_ptr> keep; std::vector<cell_ptr> D;
            try { D = build(t, &keep); for (auto& tp : keep) { tp->avg_division_vol_ = 0; tp->std_division_vol_ = 0; } for (auto& cp : D) cp->initialize_random_properties();
                double me = 0; long ne = 0; for (auto& m : t.meshes) { me += gen::mean_edge(m); ne++; } me /= (double)ne; const double lm = me / 1.8; local_mesh_refiner lmr(lm, 3 * lm, false);
                unsigned max_id = (unsigned)D.size(); omp_set_num_threads(1);
                for (int round = 0; round < 2 && D.size() <= 10; round++) { for (auto& cp : D) cp->apply_internal_forces(0.0); cell_divider::run(D, lm, lmr, max_id, false); }
                for (auto& cp : D) { cp->apply_internal_forces(0.0); for (node& n : cell_tester::nodes(*cp)) if (n.is_used()) { n.set_force(vec3(0, 0, 0));
#if DYNAMIC_MODEL_INDEX == 0
                        n.set_momentum(vec3(0, 0, 0));
#endif
                    } }
            } catch (const std::exception&) { D.clear(); }
            verif::get().rng_seed = nullptr;
            if (D.size() > t.meshes.size()) { div_cells = (long)D.size();
                Tissue t3 = t; t3.cls.clear(); for (auto& cp : D) t3.cls.push_back((int)cp->get_cell_type_id());
                std::vector<std::vector<V3>> X3(D.size()); for (size_t k = 0; k < D.size(); k++) for (const node& n : cell_tester::nodes(*D[k])) X3[k].push_back(vpos(n));
                for (auto& v : g_pairs) v.clear(); verif::get().contact_pair = on_pair; omp_set_num_threads(a.threads); model_t md(t.P); md.run(D); verif::get().contact_pair = nullptr;
                std::map<const cell*, uint32_t> cidx3; for (size_t k = 0; k < D.size(); k++) cidx3[D[k].get()] = (uint32_t)k;
                std::unordered_set<PairKey, PairHash> P3; for (auto& v : g_pairs) for (auto& p : v) { const cell* c1 = (const cell*)p[0]; const cell* c2 = (const cell*)p[2]; const node* n = (const node*)p[1]; const face* f = (const face*)p[3]; P3.insert({cidx3[c1], n->get_local_id(), cidx3[c2], f->get_local_id()}); }
                Brute b3 = brute(D, X3, P3, t3, cmax, GZ); div_within = b3.within;
                std::set<unsigned> ids; bool dup = false; for (auto& cp : D) if (!ids.insert(cp->get_id()).second) dup = true;
                if (b3.missing) c.viol("c06.pair_within_cutoff_not_presented:after_divisions", b3.msg + " (" + std::to_string(b3.missing) + " such pairs) in a tissue of " + std::to_string(D.size()) + " cells produced by two rounds of cell_divider::run" + (dup ? " (two cells carry the same id)" : ""));
            }
        }
    }
    { long freeslots = 0; for (size_t k = 0; k + 1 < A.size(); k++) for (const face& f : cell_tester::faces(*A[k])) if (!f.is_used()) freeslots++; if (freeslots) c.obs.i("unused_face_slots_before_last_cell", freeslots); }
    c.nontrivial = within > 0; c.sig = hash_combine(hash_combine((uint64_t)within, (uint64_t)presented), hash_combine((uint64_t)forced, hash_double((double)sabs)));
    c.obs.s("family", t.family).i("cells", (long)A.size()).i("pairs_within_cutoff", within).i("pairs_gated_out", gated_out).i("pairs_presented", (long)presented).i("nodes_with_force", forced).i("couplings", couplings).b("all_pairs_comparison", didB).d("all_pairs_maxdiff_over_fmax", fmax > 0 ? (double)(maxdiff / fmax) : 0.0)
        .i("repeats", repeats_done).i("cells_after_divisions", div_cells).i("division_pairs_within_cutoff", div_within).b("model_reused", did_reuse).i("reuse_pairs_within_cutoff", reuse_within).b("second_phase", did_phase2).i("second_phase_couplings", phase2_couplings).d("net_over_sumabs", sabs > 0 ? (double)(sum.norm() / sabs) : 0.0).d("lmin", t.P.min_edge_len_).d("cutoff_adh", t.P.contact_cutoff_adhesion_).d("cutoff_rep", t.P.contact_cutoff_repulsion_).d("offset", t.offset).b("epi_epi", t.has_epi_epi).i("threads", a.threads);
    return c.line();
}

// ---- micro scenes: one node against one triangle -------------------------------------------------------------------------------------------
static std::string micro_case(const Args& a, long i) {
    Rng g(a.seed, (uint64_t)i, 0x07); Case c(i);
    int cl1 = (int)(i % 5), cl2 = (int)((i / 5) % 5); bool same = g.coin(0.5);
    auto t1 = std::make_shared<cell_type_parameters>(ctype(cl1, g, same)), t2 = std::make_shared<cell_type_parameters>(ctype(cl2, g, same));
    global_simulation_parameters P; P.min_edge_len_ = 0.1; P.contact_cutoff_adhesion_ = g.logu(0.02, 0.3); P.contact_cutoff_repulsion_ = g.logu(0.02, 0.3); P.time_step_ = 1; P.damping_coefficient_ = 1; P.simulation_duration_ = 1; P.sampling_period_ = 1;
    const double ca = P.contact_cutoff_adhesion_, cr = P.contact_cutoff_repulsion_, cmax = std::max(ca, cr);
    // cell 2: an octahedron-like body whose face 0 is the target triangle; cell 1: a small body far away whose node 0 is moved to the query position
    gen::TriMesh m2 = gen::icosphere(g.range(0, 1)); gen::jitter(m2, g, 0.05); gen::rotate(m2, gen::rot_random(g)); double s2 = g.uni(0.5, 2); gen::scale(m2, s2, s2, s2);
    gen::TriMesh m1 = gen::icosphere(0); gen::scale(m1, 0.3, 0.3, 0.3); gen::translate(m1, 50, 0, 0);
    V3 off = g.coin(0.5) ? V3() : V3(g.uni(-1, 1), g.uni(-1, 1), g.uni(-1, 1)) * g.logu(1, 1e3); gen::translate(m1, (double)off.x, (double)off.y, (double)off.z); gen::translate(m2, (double)off.x, (double)off.y, (double)off.z);
    cell_ptr c1, c2; try { c1 = gen::make_cell_of_class(cl1, m1, 0, t1); c2 = gen::make_cell_of_class(cl2, m2, 1, t2); } catch (const std::exception& e) { c.v = "skip"; return c.line(); }
    c1->set_local_id(0); c2->set_local_id(1); c1->apply_internal_forces(0); c2->apply_internal_forces(0);
    auto& fl = cell_tester::faces(*c2); size_t fi = g.u64() % fl.size(); face& f = fl[fi]; f.set_face_type_id((unsigned short)(g.u64() % t2->face_types_.size()));
    auto& n2l = cell_tester::nodes(*c2); V3 A = vpos(n2l[cell_tester::n1(f)]), B = vpos(n2l[cell_tester::n2(f)]), C = vpos(n2l[cell_tester::n3(f)]);
    V3 nrm = (B - A).cross(C - A); nrm = nrm / nrm.norm();           // outward (cells are oriented outward after initialisation)
    // query point: over a random region of the triangle, signed distance swept from -cmax to +2 cmax
    double u = g.uni(-0.2, 1.2), v = g.uni(-0.2, 1.2); if (g.coin(0.6)) { u = g.uni(0.05, 0.9); v = g.uni(0.05, 0.95 - u > 0.05 ? 0.95 - u : 0.05); }
    double sd = g.uni(-1.0, 2.0) * cmax; if (g.coin(0.1)) sd = (g.coin() ? 1 : -1) * cmax * (1 + g.uni(-1e-6, 1e-6));
    V3 pq = A + (B - A) * u + (C - A) * v + nrm * sd;
    auto& n1l = cell_tester::nodes(*c1); node& n = n1l[0]; cell_tester::pos(n).reset((double)pq.x, (double)pq.y, (double)pq.z); V3 p = vpos(n);
    for (cell_ptr cc : {c1, c2}) for (node& x : cell_tester::nodes(*cc)) if (x.is_used()) x.set_force(vec3(0, 0, 0));
#if CONTACT_MODEL_INDEX != 0
    // node normal: opposing the face (the configuration in which the caller presents the pair); curvature below the threshold
    cell_tester::normal(n) = vec3((double)-nrm.x, (double)-nrm.y, (double)-nrm.z); cell_tester::curvature(n) = 0;
#endif
    V3 q; int region = -1; R d2 = orc::closest_on_triangle(p, A, B, C, q, &region); R d = std::sqrt(d2);
    model_t model(P); apply_rule(model, c1, c2, n, &f);
    V3 Fn = vfor(n), Fa = vfor(n2l[cell_tester::n1(f)]), Fb = vfor(n2l[cell_tester::n2(f)]), Fc = vfor(n2l[cell_tester::n3(f)]); V3 Ff = Fa + Fb + Fc; R mag = Fn.norm() + Fa.norm() + Fb.norm() + Fc.norm();
    bool coupled = false;
#if CONTACT_MODEL_INDEX == 1
    coupled = cell_tester::coupled(n).has_value();
#elif CONTACT_MODEL_INDEX == 2
    coupled = !cell_tester::coupled_map(n).empty();
#endif
    const std::string pair = "class" + std::to_string(cl1) + "_on_class" + std::to_string(cl2);
    // reciprocity
    if (mag > 0 && !((Fn + Ff).norm() <= 1e-12L * mag)) c.viol("c07.pair_not_reciprocal:" + pair, "force on the node is not minus the sum of the forces on the three face nodes");
    // nothing else is touched
    for (cell_ptr cc : {c1, c2}) { const auto& nl = cell_tester::nodes(*cc); for (size_t k = 0; k < nl.size(); k++) { if (cc == c1 && k == 0) continue; if (cc == c2 && (k == cell_tester::n1(f) || k == cell_tester::n2(f) || k == cell_tester::n3(f))) continue; if (nl[k].is_used() && vfor(nl[k]).norm() > 0) c.viol("c07.force_on_uninvolved_node:" + pair, "a node that belongs neither to the pair's node nor to its triangle received a force"); } }
    // range
    if (d > cmax * (1 + 1e-9L) && mag > 0) c.viol("c07.force_beyond_cutoff:" + pair, "a contact force was created at " + std::to_string((double)(d / cmax)) + " cut-offs");
    if (coupled) { R dn = std::min({(p - A).norm(), (p - B).norm(), (p - C).norm()});
#if CONTACT_MODEL_INDEX == 1
        // the distance that counts is the one to the node the coupling designates (not to the nearest node of the face)
        { const auto cp = cell_tester::coupled(n).value(); if (cp.second < n2l.size()) dn = (p - vpos(n2l[cp.second])).norm(); }
#endif
        if (!(dn < ca * (1 + 1e-9L))) c.viol("c07.coupling_beyond_adhesion_cutoff:" + pair, "a coupling was created with the closest face node " + std::to_string((double)(dn / ca)) + " adhesion cut-offs away"); if (cl1 != 0 || cl2 != 0) c.viol("c07.coupling_of_non_epithelial_cells:" + pair, "a coupling was created between cells that are not both epithelial"); }
    // direction on the forbidden side.  Ordinary pairs: forbidden = inside cell 2 (negative side of the face); epithelial node on ECM face and
    // nucleus node on epithelial face: forbidden = outside (positive side)
    bool inverted = (cl1 == 0 && cl2 == 1) || (cl1 == 3 && cl2 == 0); R side = (p - q).dot(nrm); bool forbidden = inverted ? side > 0 : side < 0;
    double krep = t2->face_types_[cell_tester::type_id(f)].repulsion_strength_;
    const R rep_range = (CONTACT_MODEL_INDEX == 0) ? cr : cmax;       // the spring model uses the repulsion cut-off, the coupling models the larger cut-off
    bool margin = std::fabs((double)side) > 1e-9 * (double)(A - B).norm() && d > 1e-9L * (A - B).norm();
    if (forbidden && krep > 0 && margin && d < rep_range * (1 - 1e-9L) && region == 0 && !coupled) {
        if (!(Fn.dot(q - p) > 0)) c.viol("c07.node_not_pushed_back:" + pair, "node on the forbidden side of the surface is not pushed back toward the surface");
        else if (!(Ff.dot(p - q) > 0)) c.viol("c07.surface_not_pushed_toward_node:" + pair, "the reaction on the triangle does not push the surface toward the node");
    }
    c.nontrivial = mag > 0 || coupled; c.sig = hash_combine(hash_combine(hash_double((double)d), hash_double((double)Fn.x)), (uint64_t)(cl1 * 5 + cl2));
    c.obs.s("pair", pair).d("signed_distance_over_cutoff", (double)(side / cmax)).i("region", region).b("forbidden_side", forbidden).b("coupled", coupled).d("force", (double)Fn.norm()).d("krep", krep);
    return c.line();
}

static int cmd_contact(const Args& a) {
    Agg agg; agg.max_samples = 6; const std::string mode = a.get("mode", "tissue");
    for (long i = a.first; i < a.first + a.cases; i++) {
        if (!a.mine(i)) continue;
        std::string L = mode == "tissue" ? tissue_case(a, i) : micro_case(a, i); agg.evaluations++;
        auto num = [&](const std::string& k) -> long { size_t p = L.find("\"" + k + "\":"); if (p == std::string::npos) return 0; return atol(L.c_str() + p + k.size() + 3); };
        auto str = [&](const std::string& k) -> std::string { size_t p = L.find("\"" + k + "\":\""); if (p == std::string::npos) return ""; size_t s0 = p + k.size() + 4; return L.substr(s0, L.find('"', s0) - s0); };
        auto flag = [&](const std::string& k) -> bool { size_t p = L.find("\"" + k + "\":"); return p != std::string::npos && L.compare(p + k.size() + 3, 4, "true") == 0; };
        if (L.find("\"v\":\"skip\"") != std::string::npos) { agg.skipped++; continue; }
        if (mode == "tissue") { for (const char* k : {"pairs_within_cutoff", "pairs_gated_out", "pairs_presented", "nodes_with_force", "couplings"}) agg.bin(k, num(k)); agg.bin("family:" + str("family")); agg.bin("repeated_runs", num("repeats")); if (flag("second_phase")) agg.bin("second_phase_histories"); if (flag("all_pairs_comparison")) agg.bin("all_pairs_comparisons"); if (flag("epi_epi")) agg.bin("tissues_with_epithelial_pairs"); if (num("cells") == 1) agg.bin("single_cell_tissues"); if (num("unused_face_slots_before_last_cell") > 0) agg.bin("tissues_with_unused_slots_before_last_cell"); if (flag("model_reused")) agg.bin("model_object_reused"); if (num("cells_after_divisions") > 0) { agg.bin("tissues_produced_by_divisions"); agg.bin("division_pairs_within_cutoff", num("division_pairs_within_cutoff")); }
            size_t p = L.find("\"all_pairs_maxdiff_over_fmax\":"); if (p != std::string::npos) agg.maxi("all_pairs_maxdiff_over_fmax", atof(L.c_str() + p + 30)); p = L.find("\"net_over_sumabs\":"); if (p != std::string::npos) agg.maxi("net_force_over_sumabs", atof(L.c_str() + p + 18)); }
        else { agg.bin("pair:" + str("pair")); if (flag("forbidden_side")) agg.bin("forbidden_side_cases"); if (flag("coupled")) agg.bin("coupled_cases"); agg.bin("region:" + std::to_string(num("region"))); }
        if (flag("nt")) { agg.nontrivial++; size_t p = L.find("\"sig\":\""); if (p != std::string::npos) agg.sigs[strtoull(L.substr(p + 7, 16).c_str(), nullptr, 16)] = 1; if (mode != "tissue") agg.bin("pair_with_force_or_coupling:" + str("pair")); }
        if (L.find("\"v\":\"viol\"") != std::string::npos) { agg.viol_total++; if (agg.viol_total <= (long)agg.max_viol) emit(L); }
        else if (agg.samples.size() < agg.max_samples && flag("nt")) agg.samples.push_back(L);
    }
    agg.flush(a.shard_i);
    return 0;
}
static Reg r_contact("contact", cmd_contact);

}  // namespace
