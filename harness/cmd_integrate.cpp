// C03 — one call of time_integration_scheme::update_nodes_positions advances every live node of every non-static
// cell by the documented law (semi-implicit Euler / overdamped forward Euler), zeroes the force accumulators,
// leaves static cells and free node slots untouched, advances the simulated time by dt, and moves a mutually
// coupled pair of nodes together while preserving the pair's total momentum and force.
//
// The reference model below is written from the statement of the property only (long double, own mass
// = density * get_volume() / own live-node count).  Every call is judged against the state observed
// immediately before that call, so no error accumulates over the 1-20 consecutive calls of a history.
#include "vh.hpp"
#include "gen.hpp"
#include "oracle.hpp"
#include "local_mesh_refiner.hpp"
#include "time_integration.hpp"
#include <omp.h>
#include <cstring>

using namespace vh;
using orc::V3; using orc::R;

namespace {

const R EPS = 2.220446049250313e-16L;   // 2^-52
const R REL = 1e-12L;                   // relative tolerance on increments (design: 1e-12)
const R RND = 16 * EPS;                 // allowance for the final rounding of a + da at magnitude |a|: the true bound is
                                        // eps/2 per component, 16 eps keeps a margin of 32 on correct code

std::string cfg_name() { return "c" + std::to_string(CONTACT_MODEL_INDEX) + "d" + std::to_string(DYNAMIC_MODEL_INDEX); }

struct NS { double x[3], f[3], p[3]; bool used; };   // bit-exact snapshot of one node slot
NS snap(const node& n) {
    NS s; s.x[0] = n.pos().dx(); s.x[1] = n.pos().dy(); s.x[2] = n.pos().dz();
    s.f[0] = n.force().dx(); s.f[1] = n.force().dy(); s.f[2] = n.force().dz();
#if DYNAMIC_MODEL_INDEX == 0
    s.p[0] = n.momentum().dx(); s.p[1] = n.momentum().dy(); s.p[2] = n.momentum().dz();
#else
    s.p[0] = s.p[1] = s.p[2] = 0;
#endif
    s.used = n.is_used(); return s;
}
bool same_bits(const NS& a, const NS& b) { return !std::memcmp(a.x, b.x, sizeof a.x) && !std::memcmp(a.f, b.f, sizeof a.f) && !std::memcmp(a.p, b.p, sizeof a.p) && a.used == b.used; }
V3 v3(const double* a) { return V3(a[0], a[1], a[2]); }
bool finite3(const V3& v) { return std::isfinite((double)v.x) && std::isfinite((double)v.y) && std::isfinite((double)v.z); }
uint64_t hash_ns(uint64_t h, const NS& s) { for (int k = 0; k < 3; k++) { h = hash_combine(h, hash_double(s.x[k])); h = hash_combine(h, hash_double(s.p[k])); } return h; }
int decade(double v) { return v > 0 ? (int)std::floor(std::log10(v)) : -999; }
std::string dec(const char* name, double v) { return std::string(name) + "_decade:" + std::to_string(decade(v)); }

struct Pair { unsigned c1, n1, c2, n2; };

const char* CLS[] = {"epithelial", "ecm", "lumen", "nucleus", "static"};

}  // namespace

static int cmd_integrate(const Args& a) {
    Agg agg; const std::string CFG = cfg_name();
    std::map<std::string, int> extra_emitted;
    for (long i = a.first; i < a.first + a.cases; i++) {
        if (!a.mine(i)) continue;
        Rng g(a.seed, (uint64_t)i, 0x03);
        Case c(i);
        // ---- parameters of the population --------------------------------------------------------------
        const int ncells = g.range(1, 8), nsteps = g.range(1, 20);
        const double L = g.logu(1e-6, 1e1), dt = g.logu(1e-8, 1e2), rho0 = g.logu(1e-3, 1e7);
        const double kappa = g.logu(1e-8, 1e2);     // damping*dt/mass of the first cell: 1e2 is far inside the unstable regime (growth 1e40 in 20 steps, no overflow)
        const double delta = g.logu(1e-10, 1e1);    // typical displacement per step in units of the cell size
        const double phi = g.logu(1e-6, 1e6);       // force impulse / momentum
        const double offmag = g.coin(0.5) ? 0.0 : g.logu(1e-1, 1e4) * L;
        double od[3] = {g.normal(), g.normal(), g.normal()}; { double n = std::sqrt(od[0] * od[0] + od[1] * od[1] + od[2] * od[2]); if (n == 0) { od[0] = 1; n = 1; } for (auto& x : od) x *= offmag / n; }

        std::vector<std::pair<std::string, std::string>> found;   // distinct violation keys of this case, in order
        J vobs; bool vobs_set = false;
        auto flag = [&](const std::string& key, const std::string& msg) { for (auto& kv : found) if (kv.first == key) return false; found.push_back({key, msg}); return true; };
        std::vector<cell_ptr> cells; std::vector<int> cls; std::vector<double> rho; std::vector<long> live; std::vector<R> mass; std::vector<char> is_static;
        bool built = true; long total_free = 0, nonstatic_cells = 0, splits_after_volume = 0;
        try {
            for (int k = 0; k < ncells; k++) {
                gen::TriMesh m = gen::random_shape(g, 160);
                double s = L * g.uni(0.5, 2.0); gen::scale(m, s, s, s); gen::rotate(m, gen::rot_random(g));
                gen::translate(m, od[0] + 14 * L * (k % 2), od[1] + 14 * L * ((k / 2) % 2), od[2] + 14 * L * (k / 4));
                // free slots: points no face refers to, inserted at random places of the node list; initialize_cell_properties() marks them free
                if (g.coin(0.4)) { int nx = g.range(1, 3);
                    for (int e = 0; e < nx; e++) { unsigned at = (unsigned)(g.u64() % (m.P.size() + 1));
                        m.P.insert(m.P.begin() + at, {od[0] + g.uni(-L, L), od[1] + g.uni(-L, L), od[2] + g.uni(-L, L)});
                        for (auto& t : m.T) for (auto& v : t) if (v >= at) v++; } }
                int cl = g.range(0, 4);
                auto ct = gen::default_cell_type(3, (short)k); ct->mass_density_ = rho0 * g.logu(0.1, 10);
                // a third of the types have a minimum volume, above or below the volume of the cell (a cell below it is integrated once more before the solver
                // removes it; the per-node mass is density x volume / live nodes in every case)
                if (g.coin(0.33)) ct->min_vol_ = s * s * s * g.logu(0.05, 50);
                cell_ptr cp = gen::make_cell_of_class(cl, m, (unsigned)k, ct); cp->set_local_id((unsigned)k);
                // a third of the cells are remeshed after their volume was last computed (the refinement phase runs before the force phase, the divider
                // refines daughters): 1-3 edge splits change the number of live nodes, not the enclosed volume
                if (g.coin(0.33)) { local_mesh_refiner lmr(1e-9 * L, 1e9 * L, false); edge_set dummy; const int ns = g.range(1, 3);
                    for (int e = 0; e < ns; e++) { const auto& es = cell_tester::edges(*cp); auto it = es.begin(); std::advance(it, (long)(g.u64() % es.size())); edge ed = *it; dummy.clear(); lmr.split_edge(ed, cp, dummy); } splits_after_volume++; }
                cells.push_back(cp); cls.push_back(cl); rho.push_back(ct->mass_density_);
            }
        } catch (const std::exception& e) { built = false; }
        if (!built) { c.v = "skip"; agg.bin("skip:construction_threw"); agg.add(c); continue; }
        for (int k = 0; k < ncells; k++) {
            long lv = 0; for (const node& n : cell_tester::nodes(*cells[k])) if (n.is_used()) lv++;
            live.push_back(lv); const double V = cells[k]->get_volume();
            if (!(V > 0) || lv == 0) built = false;
            mass.push_back((R)rho[k] * (R)V / (R)lv);                       // own per-node mass
            is_static.push_back(cls[k] == 1 || cls[k] == 4);                 // ECM and static cells never move (statement)
            if (!is_static.back()) nonstatic_cells++;
            if (cells[k]->is_static() != (bool)is_static.back()) flag("static_flag:" + CFG, std::string("is_static() of a ") + CLS[cls[k]] + " cell is not what the statement says (only ECM and static cells are static)");
        }
        if (!built) { c.v = "skip"; agg.bin("skip:non_positive_volume"); agg.add(c); continue; }

        const double mref = (double)mass[0];
        const double gamma = kappa * mref / dt;
#if DYNAMIC_MODEL_INDEX == 0
        const double P0 = delta * L * mref / dt, F0 = phi * P0 / dt;
#else
        const double P0 = 0, F0 = delta * L * gamma / dt;
#endif
        auto rv = [&](double mag) { return vec3(mag * g.uni(-1, 1), mag * g.uni(-1, 1), mag * g.uni(-1, 1)); };
        long zero_force_nodes = 0, zero_mom_nodes = 0;
        auto assign_forces = [&](bool all_zero) {
            for (int k = 0; k < ncells; k++) for (node& n : cell_tester::nodes(*cells[k])) {
                if (!n.is_used()) continue;
                if (all_zero || g.coin(0.05)) { n.set_force(vec3(0, 0, 0)); zero_force_nodes++; } else n.set_force(rv(F0));
            } };
        // initial state: forces and momenta everywhere (static cells too), garbage in the free slots
        assign_forces(false);
        for (int k = 0; k < ncells; k++) for (node& n : cell_tester::nodes(*cells[k])) {
            if (n.is_used()) {
#if DYNAMIC_MODEL_INDEX == 0
                if (g.coin(0.05)) { n.set_momentum(vec3(0, 0, 0)); zero_mom_nodes++; } else n.set_momentum(rv(P0));
#endif
            } else {
                total_free++;
                cell_tester::pos(n) = rv(L); cell_tester::force(n) = rv(F0 > 0 ? F0 : 1.0);
#if DYNAMIC_MODEL_INDEX == 0
                cell_tester::momentum(n) = rv(P0 > 0 ? P0 : 1.0);
#endif
            }
        }
        // mutual couplings between live nodes of different non-static cells, each node in at most one pair
        std::vector<Pair> pairs; std::vector<std::vector<int>> pair_of(ncells); std::vector<std::array<std::pair<unsigned, unsigned>, 3>> triples;
        for (int k = 0; k < ncells; k++) pair_of[k].assign(cell_tester::nodes(*cells[k]).size(), -1);
        double frac = 0;
#if CONTACT_MODEL_INDEX == 1 || CONTACT_MODEL_INDEX == 2
        if (nonstatic_cells >= 2) {
            std::vector<std::pair<unsigned, unsigned>> cand;
            for (int k = 0; k < ncells; k++) if (!is_static[k]) { const auto& nl = cell_tester::nodes(*cells[k]); for (unsigned j = 0; j < nl.size(); j++) if (nl[j].is_used()) cand.push_back({(unsigned)k, j}); }
            for (size_t q = cand.size(); q > 1; q--) std::swap(cand[q - 1], cand[g.u64() % q]);
            frac = g.coin(0.2) ? 0.0 : g.uni(0, 0.5);
            size_t want = (size_t)(frac * cand.size() / 2);
            while (pairs.size() < want && cand.size() >= 2) {
                auto A = cand.back(); cand.pop_back(); long j = -1;
                for (long q = (long)cand.size() - 1; q >= 0; q--) if (cand[q].first != A.first) { j = q; break; }
                if (j < 0) continue;
                auto B = cand[j]; cand[j] = cand.back(); cand.pop_back();
                node& na = cell_tester::nodes(*cells[A.first])[A.second]; node& nb = cell_tester::nodes(*cells[B.first])[B.second];
                const double d2 = (na.pos() - nb.pos()).squared_norm();
#if CONTACT_MODEL_INDEX == 1
                na.set_coupled_node_and_min_distance(std::make_pair(B.first, B.second), d2); nb.set_coupled_node_and_min_distance(std::make_pair(A.first, A.second), d2);
#else
                na.set_coupled_node_and_min_distance(B.first, B.second, d2); nb.set_coupled_node_and_min_distance(A.first, A.second, d2);
#endif
                pair_of[A.first][A.second] = pair_of[B.first][B.second] = (int)pairs.size();
                pairs.push_back({A.first, A.second, B.first, B.second});
            }
#if CONTACT_MODEL_INDEX == 2
            // junctions: three nodes of three different cells, each coupled to the other two (every pair of the group is mutually coupled)
            if (nonstatic_cells >= 3 && g.coin(0.7)) {
                size_t want3 = (size_t)(g.uni(0, 0.3) * cand.size() / 3) + 1;
                while (triples.size() < want3 && cand.size() >= 3) {
                    auto A = cand.back(); cand.pop_back(); long jb = -1, jc = -1;
                    for (long q = (long)cand.size() - 1; q >= 0; q--) if (cand[q].first != A.first) { jb = q; break; }
                    if (jb < 0) break;
                    auto B = cand[jb]; cand[jb] = cand.back(); cand.pop_back();
                    for (long q = (long)cand.size() - 1; q >= 0; q--) if (cand[q].first != A.first && cand[q].first != B.first) { jc = q; break; }
                    if (jc < 0) continue;
                    auto C = cand[jc]; cand[jc] = cand.back(); cand.pop_back();
                    std::array<std::pair<unsigned, unsigned>, 3> M = {A, B, C};
                    for (int u = 0; u < 3; u++) for (int w = 0; w < 3; w++) if (u != w) { node& nu = cell_tester::nodes(*cells[M[u].first])[M[u].second]; const node& nw = cell_tester::nodes(*cells[M[w].first])[M[w].second];
                        nu.set_coupled_node_and_min_distance(M[w].first, M[w].second, (nu.pos() - nw.pos()).squared_norm()); }
                    for (int u = 0; u < 3; u++) pair_of[M[u].first][M[u].second] = 1000000 + (int)triples.size();
                    triples.push_back(M);
                }
            }
#endif
        }
#endif
        global_simulation_parameters gp; gp.time_step_ = dt; gp.damping_coefficient_ = gamma;
        time_integration_scheme ti(gp, false);

        // ---- run and judge every call ---------------------------------------------------------------
        long resolvable = 0, node_steps = 0, pair_steps = 0, triple_steps = 0, static_nodes = 0, free_checked = 0, skipped_nonfinite = 0;
        double max_p = 0, max_x = 0, max_pt = 0, max_xc = 0, max_same = 0, max_t = 0;
        double rel_p = 0, rel_x = 0, rel_pt = 0, rel_xc = 0;   // error / magnitude scale of the increment, where the rounding at |p|, |x| is negligible (< 10% of the 1e-12 term)
        long explicit_like = 0, equalized = 0, kept_difference = 0;
        uint64_t sig = hash_combine(hash_str(CFG), (uint64_t)ncells * 131 + nsteps);
        std::vector<std::vector<NS>> before(ncells), after(ncells);
        const R gam = gamma, h = dt;
        for (int s = 1; s <= nsteps; s++) {
            if (s > 1) assign_forces(g.coin(0.1));
            for (int k = 0; k < ncells; k++) { const auto& nl = cell_tester::nodes(*cells[k]); before[k].resize(nl.size()); for (size_t j = 0; j < nl.size(); j++) before[k][j] = snap(nl[j]); }
            ti.update_nodes_positions(cells);
            for (int k = 0; k < ncells; k++) { const auto& nl = cell_tester::nodes(*cells[k]); after[k].resize(nl.size()); for (size_t j = 0; j < nl.size(); j++) after[k][j] = snap(nl[j]); }
            // simulated time: t is accumulated by s additions of dt, relative error <= (s-1)*2^-53; allowance 16*s*2^-52
            { R t = ti.get_simulation_time(), want = (R)s * h, tol = 16 * (R)s * EPS * want; R e = std::fabs(t - want);
              max_t = std::max(max_t, (double)(e / tol));
              if (!(e <= tol)) flag("simulation_time:" + CFG, "after " + std::to_string(s) + " calls the simulated time is " + std::to_string((double)t) + " instead of " + std::to_string((double)want)); }
            for (int k = 0; k < ncells; k++) {
                if (before[k].size() != after[k].size()) { flag("node_slots_changed:" + CFG, "number of node slots changed"); continue; }
                for (size_t j = 0; j < before[k].size(); j++) {
                    const NS& b = before[k][j]; const NS& f = after[k][j];
                    if (is_static[k]) { static_nodes++; if (!same_bits(b, f)) flag("static_cell_changed:" + CFG, std::string("a node slot of a ") + CLS[cls[k]] + " cell changed"); continue; }
                    if (!b.used) { free_checked++; if (!same_bits(b, f)) flag("free_slot_changed:" + CFG, "a free node slot of a non-static cell changed"); continue; }
                    if (!f.used) { flag("node_flag_changed:" + CFG, "a live node is no longer flagged as used"); continue; }
                    const bool coupled = pair_of[k][j] >= 0;
                    if (!(f.f[0] == 0.0 && f.f[1] == 0.0 && f.f[2] == 0.0)) flag(std::string(coupled ? "coupled_force_not_zeroed:" : "force_not_zeroed:") + CFG, "force accumulator of an integrated node is not zero after the call");
                    if (coupled) continue;   // judged per pair below
                    const V3 x = v3(b.x), p = v3(b.p), fo = v3(b.f), xo = v3(f.x), po = v3(f.p); const R m = mass[k];
                    node_steps++;
#if DYNAMIC_MODEL_INDEX == 0
                    const R al = gam / m;
                    const V3 pref = p + (fo - p * al) * h, xref = x + pref * (h / m);
                    if (!finite3(pref) || !finite3(xref)) { skipped_nonfinite++; continue; }
                    // forward error of any evaluation of p + (f - (gamma/m) p) dt in double: a few eps times the sum of the magnitudes of
                    // the terms of the increment, plus the final rounding at |p'|
                    const R inc = (fo.norm() + al * p.norm()) * h, Sp = p.norm() + inc;
                    const R tolp = REL * inc + RND * (p.norm() + pref.norm()), ep = (po - pref).norm();
                    max_p = std::max(max_p, (double)(ep / tolp)); if (RND * (p.norm() + pref.norm()) < 0.1L * REL * inc) rel_p = std::max(rel_p, (double)(ep / inc));
                    if (!(ep <= tolp)) { if (flag("momentum_law:" + CFG, "momentum of an uncoupled node after the call differs from p + (f - damping*p/m)*dt") && !vobs_set) { vobs_set = true;
                        vobs.i("step", s).i("cell", k).i("node", (long)j).s("class", CLS[cls[k]]).raw("p", jv3(p.x, p.y, p.z)).raw("f", jv3(fo.x, fo.y, fo.z)).raw("p_after", jv3(po.x, po.y, po.z)).raw("p_reference", jv3(pref.x, pref.y, pref.z)).d("node_mass_own", (double)m).d("get_node_mass", cells[k]->get_node_mass()).d("err_over_tol", (double)(ep / tolp)); } }
                    // displacement p' dt/m: error of p' (few eps * Sp) times dt/m, plus rounding of x + dx at |x'|
                    const R tolx = REL * Sp * (h / m) + RND * std::max(x.norm(), xo.norm()), ex = (xo - xref).norm();
                    max_x = std::max(max_x, (double)(ex / tolx)); if (RND * std::max(x.norm(), xo.norm()) < 0.1L * REL * Sp * (h / m)) rel_x = std::max(rel_x, (double)(ex / (Sp * (h / m))));
                    if ((pref * (h / m)).norm() > 1e3L * EPS * x.norm()) resolvable++;
                    if (!(ex <= tolx)) {
                        const V3 xexp = x + p * (h / m); const bool expl = (xo - xexp).norm() <= tolx; if (expl) explicit_like++;
                        if (flag("position_law:" + CFG, std::string("position of an uncoupled node after the call differs from x + p'*dt/m (p' = updated momentum)") + (expl ? "; it equals x + p*dt/m with the momentum from BEFORE the update (explicit Euler)" : "")) && !vobs_set) { vobs_set = true;
                            vobs.i("step", s).i("cell", k).i("node", (long)j).s("class", CLS[cls[k]]).raw("x", jv3(x.x, x.y, x.z)).raw("p", jv3(p.x, p.y, p.z)).raw("f", jv3(fo.x, fo.y, fo.z)).raw("dx_observed", jv3(xo.x - x.x, xo.y - x.y, xo.z - x.z)).raw("dx_reference", jv3(xref.x - x.x, xref.y - x.y, xref.z - x.z)).raw("dx_explicit_old_momentum", jv3(xexp.x - x.x, xexp.y - x.y, xexp.z - x.z)).d("node_mass_own", (double)m).d("get_node_mass", cells[k]->get_node_mass()).d("err_over_tol", (double)(ex / tolx)); } }
#else
                    const V3 xref = x + fo * (h / gam);
                    if (!finite3(xref)) { skipped_nonfinite++; continue; }
                    const R tolx = REL * fo.norm() * (h / gam) + RND * std::max(x.norm(), xo.norm()), ex = (xo - xref).norm();
                    max_x = std::max(max_x, (double)(ex / tolx)); if (RND * std::max(x.norm(), xo.norm()) < 0.1L * REL * fo.norm() * (h / gam)) rel_x = std::max(rel_x, (double)(ex / (fo.norm() * (h / gam))));
                    if ((fo * (h / gam)).norm() > 1e3L * EPS * x.norm()) resolvable++;
                    if (!(ex <= tolx)) { if (flag("position_law:" + CFG, "position of an uncoupled node after the call differs from x + f*dt/damping") && !vobs_set) { vobs_set = true;
                        vobs.i("step", s).i("cell", k).i("node", (long)j).s("class", CLS[cls[k]]).raw("x", jv3(x.x, x.y, x.z)).raw("f", jv3(fo.x, fo.y, fo.z)).raw("dx_observed", jv3(xo.x - x.x, xo.y - x.y, xo.z - x.z)).raw("dx_reference", jv3(xref.x - x.x, xref.y - x.y, xref.z - x.z)).d("err_over_tol", (double)(ex / tolx)); } }
#endif
                }
            }
            // mutually coupled pairs
            for (const Pair& pr : pairs) {
                const NS &b1 = before[pr.c1][pr.n1], &b2 = before[pr.c2][pr.n2], &a1 = after[pr.c1][pr.n1], &a2 = after[pr.c2][pr.n2];
                const V3 x1 = v3(b1.x), x2 = v3(b2.x), y1 = v3(a1.x), y2 = v3(a2.x), f1 = v3(b1.f), f2 = v3(b2.f);
                const R mb = (mass[pr.c1] + mass[pr.c2]) / 2;    // mean node mass of the pair
                const R X1 = std::max(x1.norm(), y1.norm()), X2 = std::max(x2.norm(), y2.norm());
                pair_steps++;
                V3 dref; R Sd;   // reference displacement and the magnitude scale of its terms
#if DYNAMIC_MODEL_INDEX == 0
                const V3 p1 = v3(b1.p), p2 = v3(b2.p), q1 = v3(a1.p), q2 = v3(a2.p);
                const R al = gam / mb; const V3 pb = (p1 + p2) / 2, fb = (f1 + f2) / 2;
                const V3 dp = (fb - pb * al) * h;                              // increment of each momentum = half the increment of the total
                const V3 totref = p1 + p2 + dp * 2; dref = (pb + dp) * (h / mb);
                if (!finite3(totref) || !finite3(dref)) { skipped_nonfinite++; continue; }
                const R inc = (f1.norm() + f2.norm() + al * (p1.norm() + p2.norm())) * h;
                Sd = ((p1.norm() + p2.norm()) / 2 + inc / 2) * (h / mb);
                const R tolt = REL * inc + RND * (p1.norm() + p2.norm() + q1.norm() + q2.norm()), et = (q1 + q2 - totref).norm();
                max_pt = std::max(max_pt, (double)(et / tolt)); if (RND * (p1.norm() + p2.norm() + q1.norm() + q2.norm()) < 0.1L * REL * inc) rel_pt = std::max(rel_pt, (double)(et / inc));
                if (!(et <= tolt)) { if (flag("coupled_total_momentum:" + CFG, "total momentum of a mutually coupled pair after the call differs from P + (F - damping*P/m_mean)*dt") && !vobs_set) { vobs_set = true;
                    vobs.i("step", s).i("cell1", pr.c1).i("node1", pr.n1).i("cell2", pr.c2).i("node2", pr.n2).raw("p1", jv3(p1.x, p1.y, p1.z)).raw("p2", jv3(p2.x, p2.y, p2.z)).raw("f1", jv3(f1.x, f1.y, f1.z)).raw("f2", jv3(f2.x, f2.y, f2.z))
                        .raw("p1_after", jv3(q1.x, q1.y, q1.z)).raw("p2_after", jv3(q2.x, q2.y, q2.z)).raw("total_reference", jv3(totref.x, totref.y, totref.z)).d("mean_node_mass_own", (double)mb).d("err_over_tol", (double)(et / tolt)); } }
                if ((q1 - q2).norm() <= RND * (q1.norm() + q2.norm())) equalized++; else kept_difference++;
#else
                const V3 fb = (f1 + f2) / 2; dref = fb * (h / gam);
                if (!finite3(dref)) { skipped_nonfinite++; continue; }
                Sd = (f1.norm() + f2.norm()) / 2 * (h / gam);
#endif
                const V3 d1 = y1 - x1, d2 = y2 - x2;
                const R tol1 = REL * Sd + RND * X1, tol2 = REL * Sd + RND * X2, e1 = (d1 - dref).norm(), e2 = (d2 - dref).norm();
                max_xc = std::max(max_xc, (double)std::max(e1 / tol1, e2 / tol2)); if (RND * std::max(X1, X2) < 0.1L * REL * Sd) rel_xc = std::max(rel_xc, (double)(std::max(e1, e2) / Sd));
                if (dref.norm() > 1e3L * EPS * std::max(X1, X2)) resolvable++;
                if (!(e1 <= tol1) || !(e2 <= tol2)) {
                    bool expl = false;
#if DYNAMIC_MODEL_INDEX == 0
                    const V3 dexp = pb * (h / mb); expl = (d1 - dexp).norm() <= tol1 && (d2 - dexp).norm() <= tol2; if (expl) explicit_like++;
#endif
                    if (flag("coupled_position_law:" + CFG, std::string("displacement of a mutually coupled pair differs from the law applied to the pair (mean momentum/force, mean node mass)") + (expl ? "; it equals P_mean*dt/m_mean with the momentum from BEFORE the update (explicit Euler)" : "")) && !vobs_set) { vobs_set = true;
                        vobs.i("step", s).i("cell1", pr.c1).i("node1", pr.n1).i("cell2", pr.c2).i("node2", pr.n2).raw("f1", jv3(f1.x, f1.y, f1.z)).raw("f2", jv3(f2.x, f2.y, f2.z))
#if DYNAMIC_MODEL_INDEX == 0
                            .raw("p1", jv3(p1.x, p1.y, p1.z)).raw("p2", jv3(p2.x, p2.y, p2.z))
#endif
                            .raw("dx1_observed", jv3(d1.x, d1.y, d1.z)).raw("dx2_observed", jv3(d2.x, d2.y, d2.z)).raw("dx_reference", jv3(dref.x, dref.y, dref.z)).d("mean_node_mass_own", (double)mb).d("err_over_tol", (double)std::max(e1 / tol1, e2 / tol2)); } }
                // same displacement: both nodes receive the same vector, the observed differences x'-x differ only by the rounding at |x1|, |x2|
                const R tols = RND * (X1 + X2) + 0.1L * REL * Sd, es = (d1 - d2).norm();
                max_same = std::max(max_same, (double)(es / tols));
                if (!(es <= tols)) flag("coupled_same_displacement:" + CFG, "the two nodes of a mutually coupled pair received different displacements");
            }
            // junctions of three mutually coupled nodes (contact model 2): the pair law applied to the group (means over the three members)
            for (const auto& M : triples) {
                V3 x[3], y[3], f[3], p[3], q[3]; R mb = 0, Xm = 0;
                for (int u = 0; u < 3; u++) { const NS& b = before[M[u].first][M[u].second]; const NS& a2 = after[M[u].first][M[u].second]; x[u] = v3(b.x); y[u] = v3(a2.x); f[u] = v3(b.f); p[u] = v3(b.p); q[u] = v3(a2.p); mb += mass[M[u].first] / 3; Xm = std::max({Xm, x[u].norm(), y[u].norm()}); }
                triple_steps++;
                const V3 fb = (f[0] + f[1] + f[2]) / 3; V3 dref; R Sd;
#if DYNAMIC_MODEL_INDEX == 0
                const R al = gam / mb; const V3 pb = (p[0] + p[1] + p[2]) / 3; const V3 dp = (fb - pb * al) * h;
                const V3 totref = p[0] + p[1] + p[2] + dp * 3; dref = (pb + dp) * (h / mb);
                if (!finite3(totref) || !finite3(dref)) { skipped_nonfinite++; continue; }
                const R pn = p[0].norm() + p[1].norm() + p[2].norm(), qn = q[0].norm() + q[1].norm() + q[2].norm();
                const R inc = (f[0].norm() + f[1].norm() + f[2].norm() + al * pn) * h; Sd = (pn / 3 + inc / 3) * (h / mb);
                const R tolt = REL * inc + RND * (pn + qn), et = (q[0] + q[1] + q[2] - totref).norm();
                max_pt = std::max(max_pt, (double)(et / tolt));
                if (!(et <= tolt)) { if (flag("junction_total_momentum:" + CFG, "total momentum of three mutually coupled nodes after the call differs from P + (F - damping*P/m_mean)*dt") && !vobs_set) { vobs_set = true;
                    vobs.i("step", s).i("cell1", M[0].first).i("cell2", M[1].first).i("cell3", M[2].first).raw("total_after", jv3((q[0] + q[1] + q[2]).x, (q[0] + q[1] + q[2]).y, (q[0] + q[1] + q[2]).z)).raw("total_reference", jv3(totref.x, totref.y, totref.z)).d("err_over_tol", (double)(et / tolt)); } }
#else
                dref = fb * (h / gam); if (!finite3(dref)) { skipped_nonfinite++; continue; }
                Sd = (f[0].norm() + f[1].norm() + f[2].norm()) / 3 * (h / gam);
#endif
                R worst = 0; const R told = REL * Sd + RND * Xm;
                for (int u = 0; u < 3; u++) worst = std::max(worst, ((y[u] - x[u]) - dref).norm());
                max_xc = std::max(max_xc, (double)(worst / told));
                if (dref.norm() > 1e3L * EPS * Xm) resolvable++;
                if (!(worst <= told)) { if (flag("junction_position_law:" + CFG, "displacement of three mutually coupled nodes differs from the law applied to the group (mean momentum/force, mean node mass): observed/reference = " + std::to_string((double)((y[0] - x[0]).norm() / std::max<R>(dref.norm(), 1e-300)))) && !vobs_set) { vobs_set = true;
                    vobs.i("step", s).i("cell1", M[0].first).i("cell2", M[1].first).i("cell3", M[2].first).raw("dx1_observed", jv3((y[0] - x[0]).x, (y[0] - x[0]).y, (y[0] - x[0]).z)).raw("dx_reference", jv3(dref.x, dref.y, dref.z)).d("err_over_tol", (double)(worst / told)); } }
                const R tols = 2 * RND * Xm + 0.1L * REL * Sd; R es = std::max({((y[0] - x[0]) - (y[1] - x[1])).norm(), ((y[0] - x[0]) - (y[2] - x[2])).norm()});
                if (!(es <= tols)) flag("junction_same_displacement:" + CFG, "three mutually coupled nodes received different displacements");
            }
        }
        for (int k = 0; k < ncells; k++) for (const NS& f : after[k]) sig = hash_ns(sig, f);

        // ---- bookkeeping ----------------------------------------------------------------------------------
        long n_static = 0; for (int k = 0; k < ncells; k++) { agg.bin(CFG + ":cells_of_class:" + CLS[cls[k]]); if (is_static[k]) n_static++; }
        c.nontrivial = nonstatic_cells > 0 && resolvable > 0; c.sig = sig;
        agg.bin(CFG + ":populations"); agg.bin(CFG + ":cells_remeshed_after_volume", splits_after_volume); agg.bin(CFG + ":calls", nsteps); agg.bin(CFG + ":threads=" + std::to_string(omp_get_max_threads()));
        agg.bin(CFG + ":uncoupled_node_steps_checked", node_steps); agg.bin(CFG + ":coupled_pair_steps_checked", pair_steps); agg.bin(CFG + ":coupled_pairs", (long)pairs.size()); agg.bin(CFG + ":junction_steps_checked", triple_steps); agg.bin(CFG + ":junctions", (long)triples.size());
        agg.bin(CFG + ":populations_with_coupled_pairs", pairs.empty() ? 0 : 1);
        agg.bin(CFG + ":static_cells", n_static); agg.bin(CFG + ":static_node_steps_checked", static_nodes);
        agg.bin(CFG + ":free_slots_in_nonstatic_cells_checked", free_checked); agg.bin(CFG + ":free_slots_total", total_free);
        agg.bin(CFG + ":resolvable_displacements", resolvable); agg.bin(CFG + ":skipped_nonfinite_reference", skipped_nonfinite);
        agg.bin(CFG + ":explicit_euler_like_displacements", explicit_like);
        agg.bin(CFG + ":coupled_momenta_equal_after", equalized); agg.bin(CFG + ":coupled_momenta_differ_after", kept_difference);
        agg.bin("ncells:" + std::to_string(ncells)); agg.bin("nsteps_band:" + std::string(nsteps == 1 ? "1" : nsteps <= 5 ? "2-5" : nsteps <= 12 ? "6-12" : "13-20"));
        agg.bin(dec("dt", dt)); agg.bin(dec("damping", gamma)); agg.bin(dec("density", rho0)); agg.bin(dec("size", L)); agg.bin(dec("damping_dt_over_mass", kappa)); agg.bin(dec("node_mass", mref));
        agg.bin(offmag == 0 ? "offset:0" : dec("offset_over_size", offmag / L));
        agg.bin("coupled_fraction:" + std::string(pairs.empty() ? "0" : frac < 0.1 ? "<10%" : frac < 0.3 ? "10-30%" : "30-50%"));
        agg.bin("zero_force_nodes", zero_force_nodes); agg.bin("zero_momentum_nodes", zero_mom_nodes);
        agg.maxi(CFG + ":momentum_err_over_tol", max_p); agg.maxi(CFG + ":displacement_err_over_tol", max_x);
        agg.maxi(CFG + ":coupled_total_momentum_err_over_tol", max_pt); agg.maxi(CFG + ":coupled_displacement_err_over_tol", max_xc);
        agg.maxi(CFG + ":coupled_same_displacement_err_over_tol", max_same);
        agg.maxi(CFG + ":momentum_increment_rel_err", rel_p); agg.maxi(CFG + ":displacement_rel_err", rel_x); agg.maxi(CFG + ":coupled_total_momentum_increment_rel_err", rel_pt); agg.maxi(CFG + ":coupled_displacement_rel_err", rel_xc); agg.maxi(CFG + ":time_err_over_tol", max_t);

        auto describe = [&](J& o) { std::string cl; for (int k = 0; k < ncells; k++) { if (k) cl += ","; cl += CLS[cls[k]]; }
            o.s("config", CFG).i("threads", omp_get_max_threads()).i("cells", ncells).s("classes", cl).i("calls", nsteps).d("dt", dt).d("damping", gamma).d("density0", rho0).d("size", L).d("offset", offmag)
             .i("coupled_pairs", (long)pairs.size()).i("free_slots", total_free).i("static_cells", n_static).i("uncoupled_node_steps", node_steps).i("coupled_pair_steps", pair_steps); };
        if (!found.empty()) {
            c.viol(found[0].first, found[0].second);
            std::string keys; for (auto& kv : found) { if (!keys.empty()) keys += " "; keys += kv.first; }
            describe(c.obs); c.obs.s("all_keys_of_case", keys); if (vobs_set) c.obs.raw("first", vobs.str());
            // a case line carries one key: further distinct keys of the same population are emitted as extra case lines (at most 3 per key and process)
            for (size_t q = 1; q < found.size(); q++) if (extra_emitted[found[q].first]++ < 3) { Case e(i); e.viol(found[q].first, found[q].second); e.sig = sig; describe(e.obs); e.obs.s("all_keys_of_case", keys); emit(e.line()); }
        } else if (agg.samples.size() < agg.max_samples) describe(c.obs);
        agg.add(c);
    }
    agg.flush(a.shard_i);
    return 0;
}
static Reg r_integrate("integrate", cmd_integrate);
