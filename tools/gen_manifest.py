#!/usr/bin/env python3
"""Regenerates MANIFEST.json from the table below (kept in one place so it is always valid)."""
import json, os, subprocess, sys
VERIF = os.path.dirname(os.path.dirname(os.path.abspath(__file__)))
sys.path.insert(0, VERIF)

HOOK_GUARD = "SIMUCELL3D_VERIF"

def load_claimed():
    import importlib, glob
    sys.path.insert(0, os.path.join(VERIF, "tools"))
    out = {}
    for p in sorted(glob.glob(os.path.join(VERIF, "checks", "C[0-9][0-9].py"))):
        mod = importlib.import_module("checks." + os.path.basename(p)[:-3])
        out[mod.ID] = mod.MANIFEST
    return out


CLAIMED = load_claimed()

NOT_YET = {}


def source_commits():
    try:
        out = subprocess.check_output(["git", "-C", "/repo", "log", "--format=%H %s"], text=True)
    except Exception:
        return []
    return [l.split()[0] for l in out.splitlines() if "verif hook" in l]


def main():
    props = [json.loads(l) for l in open(os.path.join(VERIF, "properties.jsonl"))]
    checks = []
    na = []
    for p in props:
        pid = p["id"]
        if pid in CLAIMED:
            cat, tech, text, note, ref = CLAIMED[pid]
            checks.append({
                "property_id": pid,
                "quick_cmd": "python3 check.py %s --tier quick" % pid,
                "thorough_cmd": "python3 check.py %s --tier thorough" % pid,
                "evidence_file": "evidence/%s.json" % pid,
                "replay_cmd_template": "python3 check.py %s --replay {path}" % pid,
                "engine": "vh",
                "level_claimed": {"category": cat, "text": text, "design_ref": ref},
                "level_note": note,
                "technique": tech,
            })
        else:
            na.append({"property_id": pid, "reason": NOT_YET.get(pid, "check not built yet in this round (planned in DESIGN.md section 3); nothing is claimed for it")})
    man = {
        "version": 1,
        "setup_cmd": "python3 tools/build.py --prebuild quick",
        "hooks": {
            "guard": HOOK_GUARD,
            "enable": "tools/build.py compiles every TU under /repo/src (+ lib/tinyxml2) with -D%s [-DSIMUCELL3D_VERIF_CONTACT_MODEL_INDEX=n -DSIMUCELL3D_VERIF_DYNAMIC_MODEL_INDEX=n] together with /verif/harness/*.cpp" % HOOK_GUARD,
            "baseline_off_cmd": "cmake -G Ninja -B /repo/_build -S /repo && cmake --build /repo/_build -j16 && ctest --test-dir /repo/_build -j8 --timeout 900",
            "source_commits": source_commits(),
            "add_only": True,
        },
        "engines": [
            {"name": "vh", "path": "harness/", "serves_properties": sorted(CLAIMED), "kind_free_text": "C++ harness linked against the repository objects (gcc; flavours plain -O2, ASan+UBSan, TSan+libgomp shim, valgrind build); seeded generators, independent oracles, friend-tester state access, hook sinks"},
            {"name": "check.py", "path": "check.py", "serves_properties": sorted(CLAIMED), "kind_free_text": "orchestrator: builds from /repo's working tree, shards cases over 16 cores, merges JSONL, matches known findings, writes evidence"},
        ],
        "checks": checks,
        "not_applicable": na,
        "notes": "Technique family: runtime monitoring and sanitizers. Every verdict is 'held on the executions described in the evidence file', 'violated (witness attached)' or 'inconclusive' (exit 2).",
    }
    with open(os.path.join(VERIF, "MANIFEST.json"), "w") as f:
        json.dump(man, f, indent=1)
    print("MANIFEST.json: %d checks, %d not_applicable" % (len(checks), len(na)))


if __name__ == "__main__":
    main()
