// libFuzzer target (clang) for C17: the parameter reader (and tinyxml2) alone.  See fuzz_mesh_reader.cpp.
#include "parameter_reader.hpp"
#include <cstdint>
#include <cstdio>
#include <cstdlib>
#include <string>
#include <unistd.h>

static std::string g_path;
extern "C" int LLVMFuzzerInitialize(int*, char***) {
    const char* d = getenv("C17_FUZZ_TMP"); g_path = std::string(d ? d : "/tmp") + "/c17_fuzz_param_" + std::to_string((long)getpid()) + ".xml";
    return 0;
}
extern "C" int LLVMFuzzerTestOneInput(const uint8_t* data, size_t size) {
    FILE* f = fopen(g_path.c_str(), "wb"); if (!f) abort();
    fwrite(data, 1, size, f); fclose(f);
    try {
        parameter_reader reader(g_path);
        global_simulation_parameters numerical = reader.read_numerical_parameters();
        std::vector<std::shared_ptr<cell_type_parameters>> cell_types = reader.read_biomechanical_parameters();
        (void)numerical; (void)cell_types;
    } catch (const std::exception&) {
    }
    return 0;
}
