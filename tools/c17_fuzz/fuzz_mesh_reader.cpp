// libFuzzer target (clang) for C17: the mesh reader alone.  Built by tools/c17_fuzz.py from the repository's current tree.
// Anything other than "returns" or "throws something derived from std::exception" ends the process and is an artefact
// that tools/c17_fuzz.py hands to `vh startup --mode=files --what=mesh` (gcc builds) for the verdict.
#include "mesh_reader.hpp"
#include <cstdint>
#include <cstdio>
#include <cstdlib>
#include <string>
#include <unistd.h>

static std::string g_path;
extern "C" int LLVMFuzzerInitialize(int*, char***) {
    const char* d = getenv("C17_FUZZ_TMP"); g_path = std::string(d ? d : "/tmp") + "/c17_fuzz_mesh_" + std::to_string((long)getpid()) + ".vtk";
    return 0;
}
extern "C" int LLVMFuzzerTestOneInput(const uint8_t* data, size_t size) {
    FILE* f = fopen(g_path.c_str(), "wb"); if (!f) abort();
    fwrite(data, 1, size, f); fclose(f);
    try {
        mesh_reader reader(g_path, false);
        std::vector<mesh> meshes = reader.read();
        std::vector<short> types = reader.get_cell_types();
        (void)meshes; (void)types;
    } catch (const std::exception&) {
    }
    return 0;
}
