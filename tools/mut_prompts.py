#!/usr/bin/env python3
"""Writes the prompt files for a round of fault-seeding sub-agents: /tmp/mut<R>_prompt_Cxx.txt.  A prompt holds only the text of one
property, the list of changes already seeded for it (title + first lines of what changed, so that new ones differ), the agent's own
scratch worktree /tmp/mut_Cxx and its output directory /tmp/mut_out<R>/Cxx - nothing from /verif."""
import json, glob, os, sys
VERIF = os.path.dirname(os.path.dirname(os.path.abspath(__file__)))
rnd = int(sys.argv[1]) if len(sys.argv) > 1 else 3
props = [json.loads(l) for l in open(os.path.join(VERIF, "properties.jsonl"))]
for p in props:
    pid = p["id"]; wt = "/tmp/mut_%s" % pid; out = "/tmp/mut_out%d/%s" % (rnd, pid)
    prev = []
    for d in sorted(glob.glob(os.path.join(VERIF, "seeded", pid + "_*"))):
        m = json.load(open(os.path.join(d, "meta.json")))
        prev.append("- %s: %s" % (m.get("title", "?"), str(m.get("what_changed", ""))[:420]))
    text = f"""You are a careful C++ engineer acting as a fault seeder for a testing study of SimuCell3D (a 3D cell-based tissue mechanics simulator: triangulated cell meshes, contact models, remeshing, cell division, time integration). You work ONLY inside your own git worktree of the repository at {wt} (never touch /repo, /verif or any other directory except your output directory {out}). You are given one behavioural property of the system (below). Your task: craft TWO different realistic source changes (mutations), each of which makes the system violate this property while (1) the code still compiles, (2) the repository's existing test suite still passes (`cmake -G Ninja -B {wt}/_build -S {wt} && cmake --build {wt}/_build -j8 && ctest --test-dir {wt}/_build -j4` must report 100% passed, 126 tests), and (3) ordinary use would NOT expose the problem at once: the violation must need something specific to manifest — a particular interleaving or thread count, a fault/exception at a particular point, a multi-step sequence of operations, an unusual but admissible input (a particular geometric configuration, parameter combination, position in a list, boundary value), or two cooperating sites that each look fine alone. Think of the kind of bug a plausible refactoring, optimisation or "small cleanup" could introduce. The two mutations must use different mechanisms / sites.

{len(prev)} mutations were ALREADY seeded for this property in earlier rounds; yours must differ from them in site and mechanism (do not produce variants of these), should touch other functions / files where the property allows it, and should be subtler:
""" + "\n".join(prev) + f"""


PROPERTY
Property {pid}: {p['title']}

Statement: {p['statement']}

Quantifier: {p['quantifier']['text']}


For EACH mutation k in {{1,2}} produce in {out}/k/ :
- `patch.diff` — unified diff against the worktree HEAD (`git -C {wt} diff > patch.diff`), touching only files under src/ or include/ (not tests, not CMake files, not include/verif_hooks.hpp and not any line containing VERIF_ macros; keep those intact).
- a demonstration: a small self-contained C++ program `demo.cpp` (plus `build_and_run.sh`) that uses the repository's public API (you may `#define private public`/use the friend tester class names the repo declares such as `cell_tester`, `local_mesh_refiner_tester` if you need internal access), compiled against the worktree sources (compile the needed .cpp files from {wt}/src and lib/tinyxml2 directly with g++ -std=gnu++17 -fopenmp -O1 -I<all include dirs> -DPROJECT_SOURCE_DIR=...; no cmake needed), which exits 0 and prints PASS on the unmodified worktree and exits non-zero and prints FAIL (with a short explanation of the observed violation) when the patch is applied. The demo must check the property as stated (an observable consequence), not the presence of your code change. It must be deterministic enough: if the bug needs a race, make the demo loop until it shows (bounded) and say how often it showed.
- `meta.json`: {{"property": "{pid}", "title": short name of the mutation, "what_changed": ..., "needs_to_manifest": what specific input / sequence / schedule / fault is required, "why_tests_still_pass": ..., "demo_observed_with_patch": ..., "demo_observed_without_patch": ...}}.

Procedure you must follow and report: build the unmodified worktree and run ctest (baseline); for each mutation: apply, rebuild, run ctest (must be all green), run demo (must FAIL), save patch, `git -C {wt} checkout -- .` (revert), run demo again (must PASS). Leave the worktree clean (no patch applied) at the end. Do not create commits. Keep everything you need under {out} and the worktree. Be efficient: the full repo builds in about a minute with -j8.

Final reply: for each mutation a 5-line summary (site, mechanism, what is needed to manifest, ctest result with patch, demo results with/without patch), and the paths of the files.
"""
    open("/tmp/mut%d_prompt_%s.txt" % (rnd, pid), "w").write(text)
    os.makedirs(out, exist_ok=True)
print("wrote", len(props), "prompts for round", rnd)
