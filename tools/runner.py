"""Shared plumbing for check.py: running harness shards, merging results, crash-key extraction,
known-finding matching, replay files and evidence files."""
import json, os, re, subprocess, sys, time, hashlib, tempfile, shutil
from concurrent.futures import ThreadPoolExecutor

VERIF = os.path.dirname(os.path.dirname(os.path.abspath(__file__)))
sys.path.insert(0, os.path.join(VERIF, "tools"))
import build as builder  # noqa

# drills on scratch copies redirect evidence / replays / work directories so that they never touch the committed ones
OUT = os.environ.get("VERIF_OUT", VERIF)
NCPU = os.cpu_count() or 16
SYMBOLIZER = "/usr/lib/llvm-14/bin/llvm-symbolizer"


def san_env(flavour, extra=None):
    env = dict(os.environ)
    env.setdefault("OMP_NUM_THREADS", "1")
    env["OMP_WAIT_POLICY"] = "passive"
    if flavour.startswith("asan"):
        env["ASAN_OPTIONS"] = ("abort_on_error=1:detect_leaks=0:allocator_may_return_null=1:"
                               "detect_stack_use_after_return=1:handle_abort=0:"
                               "external_symbolizer_path=" + SYMBOLIZER)
        env["UBSAN_OPTIONS"] = "print_stacktrace=1:halt_on_error=1:external_symbolizer_path=" + SYMBOLIZER
    if flavour == "tsan":
        env["TSAN_OPTIONS"] = "halt_on_error=0:second_deadlock_stack=1:history_size=4:external_symbolizer_path=" + SYMBOLIZER
    if extra:
        env.update(extra)
    return env


class Inv:
    """One harness invocation, sharded."""

    def __init__(self, cmd, cases, flavour="plain", config="c1d0", args=None, shards=None, threads=1,
                 timeout=1800, tag=None, first=0, env=None):
        self.cmd = cmd; self.cases = cases; self.flavour = flavour; self.config = config
        self.args = args or []; self.shards = shards; self.threads = threads; self.timeout = timeout
        self.tag = tag or ("%s/%s/%s" % (cmd, flavour, config)); self.first = first; self.env = env or {}


class Merged:
    def __init__(self):
        self.evaluations = 0; self.nontrivial = 0; self.skipped = 0
        self.bins = {}; self.maxima = {}; self.samples = []; self.sigs = set(); self.distinct_unlisted = 0
        self.violations = []      # dicts: key,msg,replay
        self.harness_failures = []  # strings
        self.inconclusive = []
        self.case_lines = 0

    def add_bins(self, bins, prefix=""):
        for k, v in bins.items():
            self.bins[prefix + k] = self.bins.get(prefix + k, 0) + v

    @property
    def distinct(self):
        return len(self.sigs) + self.distinct_unlisted


_REPO_FRAME = re.compile(r"^\s*#\d+\s+0x[0-9a-f]+\s+in\s+(.+?)\s+(/\S+?):(\d+)", re.M)


def crash_key(err, signal=0, exit_code=0, timeout=False):
    """Stable signature of a crash: kind + first three repository frames (function names, no line numbers)."""
    if timeout:
        return "timeout"
    repo = builder.repo_dir().rstrip("/") + "/"
    kind = None
    m = re.search(r"ERROR: AddressSanitizer: ([\w-]+)", err)
    if m:
        kind = "asan:" + m.group(1)
    if not kind:
        m = re.search(r"runtime error: (.+)", err)
        if m:
            msg = m.group(1)
            msg = re.sub(r"0x[0-9a-f]+", "ADDR", msg); msg = re.sub(r"-?\d+(\.\d+)?(e[+-]?\d+)?", "N", msg)
            kind = "ubsan:" + msg[:80]
    if not kind:
        m = re.search(r"Assertion '(.+?)' failed", err)
        if m:
            kind = "glibcxx-assert:" + m.group(1)[:60]
    if not kind:
        m = re.search(r"terminate called after throwing an instance of '(.+?)'", err)
        if m:
            kind = "terminate:" + m.group(1)
        elif "terminate called" in err:
            kind = "terminate"
    if not kind:
        m = re.search(r"ThreadSanitizer: ([\w -]+)", err)
        if m:
            kind = "tsan:" + m.group(1).strip()
    if not kind:
        kind = "signal:%d" % signal if signal else "exit:%d" % exit_code
    frames = []
    for fm in _REPO_FRAME.finditer(err):
        fn, path = fm.group(1), fm.group(2)
        if path.startswith(repo) or "/harness/" in path:
            fn = re.sub(r"\(.*", "", fn)            # drop the argument list
            fn = re.sub(r"<.*>", "<>", fn)
            if path.startswith(repo):
                frames.append(fn)
            if len(frames) >= 3:
                break
    return kind + ("|" + ">".join(frames) if frames else "")


def run_inv(inv, seed, workdir, merged, quiet=False):
    binp = builder.build(inv.flavour, inv.config, "vh")
    nsh = inv.shards or min(NCPU // max(1, inv.threads), max(1, inv.cases))
    nsh = max(1, min(nsh, inv.cases))
    env = san_env(inv.flavour, inv.env)
    env["OMP_NUM_THREADS"] = str(inv.threads)
    outs = []
    procs = []
    t0 = time.time()
    for sh in range(nsh):
        out = os.path.join(workdir, "%s.%d.jsonl" % (re.sub(r"[^\w]+", "_", inv.tag), sh))
        if os.path.exists(out):
            os.unlink(out)
        argv = [binp, inv.cmd, "--seed", str(seed), "--cases", str(inv.cases), "--first", str(inv.first),
                "--shard", "%d/%d" % (sh, nsh), "--out", out, "--threads", str(inv.threads)] + list(inv.args)
        errf = open(out + ".stderr", "w")
        p = subprocess.Popen(argv, stdout=subprocess.DEVNULL, stderr=errf, env=env, cwd=workdir)
        procs.append((p, out, errf, argv)); outs.append(out)
    for p, out, errf, argv in procs:
        try:
            rc = p.wait(timeout=max(1, inv.timeout - (time.time() - t0)))
        except subprocess.TimeoutExpired:
            p.kill(); p.wait(); rc = None
        errf.close()
        err = open(out + ".stderr").read()[-8000:]
        replay_base = {"flavour": inv.flavour, "config": inv.config, "cmd": inv.cmd, "seed": seed,
                       "args": list(inv.args), "threads": inv.threads, "env": inv.env}
        nlines = 0
        saw_summary = False
        if os.path.exists(out):
            for line in open(out):
                line = line.strip()
                if not line:
                    continue
                try:
                    d = json.loads(line)
                except Exception:
                    merged.harness_failures.append("%s: unparsable line %r" % (inv.tag, line[:200])); continue
                nlines += 1
                absorb(d, inv, merged, replay_base)
                if d.get("summary"):
                    saw_summary = True
        if rc is None:
            merged.inconclusive.append("%s shard timed out after %ds (wall clock watchdog)" % (inv.tag, inv.timeout))
        elif rc != 0 or not saw_summary:
            # the shard process itself died: attribute to the harness unless a sanitizer report says otherwise
            key = crash_key(err, signal=-rc if rc < 0 else 0, exit_code=rc if rc > 0 else 0)
            merged.harness_failures.append("%s shard exited rc=%s without summary: %s\n%s" % (inv.tag, rc, key, err[-1500:]))
    return merged


def absorb(d, inv, merged, replay_base):
    pre = ""
    if d.get("summary"):
        merged.evaluations += d.get("evaluations", 0); merged.nontrivial += d.get("nontrivial", 0)
        merged.skipped += d.get("skipped", 0)
        merged.add_bins(d.get("bins", {}), pre)
        merged.add_bins({"cases@" + inv.tag: d.get("evaluations", 0)})
        for k, v in d.get("maxima", {}).items():
            if isinstance(v, (int, float)) and (k not in merged.maxima or v > merged.maxima[k]):
                merged.maxima[k] = v
        for s in d.get("samples", []):
            if len(merged.samples) < 12:
                s = dict(s); s["inv"] = inv.tag; merged.samples.append(s)
        if "sigs" in d:
            merged.sigs.update(d["sigs"])
        else:
            merged.distinct_unlisted += d.get("distinct", 0)
        extra = d.get("viol_total", 0)
        merged.bins["violations_total@" + inv.tag] = merged.bins.get("violations_total@" + inv.tag, 0) + extra
        return
    merged.case_lines += 1
    v = d.get("v")
    rp = dict(replay_base); rp["case"] = d.get("i")
    if v == "viol":
        merged.violations.append({"key": d.get("key", "?"), "msg": d.get("msg", ""), "obs": d.get("obs"), "replay": rp, "inv": inv.tag})
    elif v in ("crash", "timeout"):
        key = crash_key(d.get("err", ""), d.get("signal", 0), d.get("exit", 0), v == "timeout")
        merged.violations.append({"key": "crash:" + key, "msg": (d.get("err", "") or "")[:3000], "obs": d.get("obs"), "replay": rp,
                                  "inv": inv.tag, "crash": True, "timeout": v == "timeout"})
    elif v == "inconclusive":
        merged.inconclusive.append("%s case %s: %s" % (inv.tag, d.get("i"), d.get("msg", "")))


# ---------------------------------------------------------------------------------------------------
def load_known():
    p = os.path.join(VERIF, "known_findings.json")
    if not os.path.exists(p):
        return []
    return json.load(open(p))


def match_known(prop, key, known):
    for k in known:
        if k.get("property") != prop or k.get("status") != "known":
            continue
        if k.get("key") == key:
            return k
        if k.get("key_re") and re.fullmatch(k["key_re"], key):
            return k
    return None


def write_replay(prop, viol):
    d = os.path.join(OUT, "replays", prop)
    os.makedirs(d, exist_ok=True)
    body = {"property": prop, "key": viol["key"], "msg": viol.get("msg", "")[:2000], "obs": viol.get("obs"), "replay": viol["replay"]}
    h = hashlib.sha256(json.dumps(body["replay"], sort_keys=True).encode() + viol["key"].encode()).hexdigest()[:16]
    p = os.path.join(d, h + ".json")
    with open(p, "w") as f:
        json.dump(body, f, indent=1)
    return p


def finish(prop, tier, seed, merged, rule, t0, assumptions, level="exploration", floors=None, extra_cov=None,
           own_crashes=False, exhaustive=False):
    """Decide, print VIOLATION / KNOWN-FINDING lines, write evidence, return exit code.
    own_crashes: time-outs inside the workload are verdicts of *this* property too (termination is part of it); otherwise a
    time-out is inconclusive.  Crashes are always reported under the property whose workload crashed."""
    known = load_known()
    new_viol = []; known_hits = {}
    for v in merged.violations:
        if v.get("crash") and not own_crashes and "timeout" in v["key"]:
            # a time-out is never a verdict here (termination belongs to C09/C11/C10): inconclusive, tolerated in small numbers (see below)
            merged.inconclusive.append("timed out in %s (%s): %s" % (v["inv"], v["key"], json.dumps(v["replay"])))
            continue
        # any other abnormal end of a case (signal, sanitizer report, terminate) inside this property's own workload: the execution did not
        # show the property; it is reported under this property (C10 reports the memory error itself when it reaches the same path)
        k = match_known(prop, v["key"], known)
        if k:
            known_hits.setdefault(k.get("key") or k.get("key_re"), (k, 0))
            known_hits[k.get("key") or k.get("key_re")] = (k, known_hits[k.get("key") or k.get("key_re")][1] + 1)
        else:
            new_viol.append(v)
    for kk, (k, n) in known_hits.items():
        print("KNOWN-FINDING: property=%s %s (key=%s, seen %d times in this run)" % (prop, k.get("what", ""), kk, n))
    printed = set()
    for v in new_viol:
        if v["key"] in printed:
            continue
        printed.add(v["key"])
        rp = write_replay(prop, v)
        print("VIOLATION property=%s replay=%s" % (prop, rp))
        print("  key=%s: %s" % (v["key"], (v.get("msg") or "")[:600].replace("\n", "\n    ")))
    floor_fail = []
    for name, (val, minimum) in (floors or {}).items():
        if val < minimum:
            floor_fail.append("%s=%s below floor %s" % (name, val, minimum))
    cov = {"evaluations": int(merged.evaluations), "distinct_nontrivial": int(merged.distinct), "nontrivial": int(merged.nontrivial),
           "rule": rule, "samples": merged.samples[:12] or [{"note": "no sample recorded"}], "bins": merged.bins,
           "maxima": merged.maxima, "skipped": merged.skipped,
           "known_findings_seen": {kk: n for kk, (k, n) in known_hits.items()},
           "inconclusive": merged.inconclusive[:20], "harness_failures": merged.harness_failures[:10], "floors": {k: list(v) for k, v in (floors or {}).items()}}
    if exhaustive:
        cov["exhaustive"] = True
    if extra_cov:
        cov.update(extra_cov)
    ev = {"property_id": prop, "tier": tier, "seed": int(seed), "level": level, "coverage": cov,
          "assumptions": assumptions, "wall_s": round(time.time() - t0, 2), "violations": len(printed)}
    os.makedirs(os.path.join(OUT, "evidence"), exist_ok=True)
    with open(os.path.join(OUT, "evidence", prop + ".json"), "w") as f:
        json.dump(ev, f, indent=1, default=str)
    print("%s %s seed=%s: evaluations=%d nontrivial=%d distinct=%d violations=%d known=%d inconclusive=%d harness_failures=%d wall=%.1fs" % (
        prop, tier, seed, merged.evaluations, merged.nontrivial, merged.distinct, len(printed), len(known_hits),
        len(merged.inconclusive), len(merged.harness_failures), time.time() - t0))
    if printed:
        return 1
    if merged.harness_failures:
        for h in merged.harness_failures[:5]:
            print("HARNESS-FAILURE: " + h[:2000])
        return 2
    if merged.inconclusive:
        for h in merged.inconclusive[:5]:
            print("INCONCLUSIVE: " + h[:1000])
        # a handful of cases without verdict (time-outs on a loaded machine) do not void a run whose coverage floors are met
        if len(merged.inconclusive) > max(2, 0.01 * merged.evaluations):
            return 2
    if floor_fail:
        for h in floor_fail:
            print("INCONCLUSIVE: " + h)
        return 2
    return 0


def workdir(prop):
    d = os.path.join(OUT, "work", prop)
    shutil.rmtree(d, ignore_errors=True)
    os.makedirs(d, exist_ok=True)
    return d
