#!/usr/bin/env python3
"""Run checks against a seeded change on a scratch copy of the repository (never /repo itself, never in MANIFEST commands).

  seedtest.py <seeded-dir> [--checks C01,C11] [--tier quick] [--seed 1]

Creates a scratch git worktree of /repo's HEAD under /tmp, applies <seeded-dir>/patch.diff, runs the listed checks (default: the
property named in meta.json) with VERIF_REPO pointing at it and VERIF_OUT redirected (so committed evidence is untouched),
prints exit codes and VIOLATION lines, removes the worktree and its build output."""
import argparse, json, os, shutil, subprocess, sys, time

VERIF = os.path.dirname(os.path.dirname(os.path.abspath(__file__)))


def main():
    ap = argparse.ArgumentParser(); ap.add_argument("seeded"); ap.add_argument("--checks"); ap.add_argument("--tier", default="quick"); ap.add_argument("--seed", default="1"); ap.add_argument("--keep", action="store_true")
    a = ap.parse_args()
    sd = os.path.abspath(a.seeded); meta = json.load(open(os.path.join(sd, "meta.json")))
    checks = a.checks.split(",") if a.checks else [meta["property"]]
    tag = os.path.basename(sd.rstrip("/")); wt = "/tmp/seedtest_%s_%d" % (tag, os.getpid()); out = wt + "_out"
    subprocess.check_call(["git", "-C", "/repo", "worktree", "add", "-q", "--detach", wt, "HEAD"])
    results = {}
    try:
        r = subprocess.run(["git", "-C", wt, "apply", os.path.join(sd, "patch.diff")], capture_output=True, text=True)
        if r.returncode != 0:
            print("PATCH DOES NOT APPLY:", r.stderr[:500]); return 3
        env = dict(os.environ, VERIF_REPO=wt, VERIF_OUT=out, VERIF_SEED=a.seed)
        for c in checks:
            t0 = time.time()
            p = subprocess.run([sys.executable, os.path.join(VERIF, "check.py"), c, "--tier", a.tier, "--seed", a.seed], env=env, capture_output=True, text=True, cwd=VERIF)
            viol = [l for l in p.stdout.splitlines() if l.startswith("VIOLATION") or l.strip().startswith("key=")]
            tail = [l for l in p.stdout.splitlines() if l.startswith(("INCONCLUSIVE", "HARNESS-FAILURE", "KNOWN-FINDING"))]
            results[c] = {"exit": p.returncode, "wall_s": round(time.time() - t0, 1), "violations": viol[:12], "other": tail[:6]}
            print("%s: exit=%d wall=%.0fs" % (c, p.returncode, time.time() - t0))
            for l in viol[:12]:
                print("   " + l[:300])
            for l in tail[:4]:
                print("   " + l[:300])
    finally:
        if not a.keep:
            subprocess.run(["git", "-C", "/repo", "worktree", "remove", "--force", wt]); shutil.rmtree(out, ignore_errors=True)
    print(json.dumps(results))
    return 0


if __name__ == "__main__":
    sys.exit(main())
