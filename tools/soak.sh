#!/bin/bash
# soak: the quick tier of every check for the given seeds, results redirected away from /verif/evidence; one summary line per run
# usage: tools/soak.sh <outfile> seed [seed ...]
out=$1; shift
for s in "$@"; do
  for c in C01 C02 C03 C04 C05 C06 C07 C08 C09 C10 C11 C12 C13 C14 C15 C16 C17 C18 C19 C20; do
    VERIF_OUT=/tmp/soak_out_$s python3 check.py $c --tier quick --seed $s > /tmp/soak_${c}_${s}.log 2>&1; rc=$?
    echo "seed=$s $c rc=$rc $(grep -E '^(VIOLATION|INCONCLUSIVE|HARNESS)' /tmp/soak_${c}_${s}.log | head -3 | tr '\n' ' ' | cut -c1-300) | $(tail -1 /tmp/soak_${c}_${s}.log | cut -c1-160)" >> $out
  done
  rm -rf /tmp/soak_out_$s
done
