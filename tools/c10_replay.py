#!/usr/bin/env python3
"""Replay of one C10 whole-program scenario: C10_replay.py <seed> <case> <asan|vg> <ncpu> [mkscenario args...]
Regenerates the scenario files and runs the real executable under the sanitizer; exit 1 if it reports."""
import os, sys, json, subprocess, shutil
VERIF = os.path.dirname(os.path.dirname(os.path.abspath(__file__)))
sys.path.insert(0, os.path.join(VERIF, "tools")); sys.path.insert(0, VERIF)
import runner as R
from checks import C10

seed, case, flavour, ncpu = sys.argv[1], int(sys.argv[2]), sys.argv[3], int(sys.argv[4]); mk = sys.argv[5:]
wd = os.path.join(VERIF, "work", "C10_replay"); shutil.rmtree(wd, ignore_errors=True); os.makedirs(wd)
vh = R.builder.build("plain", "c1d0", "vh"); binp = R.builder.build(flavour, "c1d0", "main")
r = subprocess.run([vh, "mkscenario", "--seed", seed, "--only", str(case), "--cases", str(case + 1), "--dir=" + wd] + mk, capture_output=True, text=True)
s = json.loads(r.stdout.splitlines()[0]); print("scenario:", s)
rc, out, err, to, wall = C10.run_main(binp, s["dir"], flavour, ncpu, 3600, valgrind=(flavour == "vg"))
print(out[-1500:]); print(err[-6000:])
bad = rc not in (0, 1) or "ERROR: AddressSanitizer" in err or "runtime error:" in err
if flavour == "vg":
    text = open(os.path.join(s["dir"], "vg.log"), errors="replace").read(); reps = C10.vg_reports(text, R.builder.repo_dir())
    for k, b in reps[:5]: print(k); print(b[:1500])
    bad = bad or bool(reps)
sys.exit(1 if bad else 0)
