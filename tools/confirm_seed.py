#!/usr/bin/env python3
"""Independent confirmation of a seeded change delivered by a sub-agent, then import into /verif/seeded/.

  confirm_seed.py <delivery-dir (holds patch.diff, meta.json, demo files, build_and_run.sh)> <worktree> <seeded-id>

In the given scratch worktree of /repo (outside /repo and /verif): apply the patch, rebuild, run the repository's ctest (must be 100%),
run the demonstration (must fail), revert, run the demonstration again (must pass).  On success the delivery is copied to
/verif/seeded/<seeded-id>/ with the confirmation record added to meta.json."""
import json, os, re, shutil, subprocess, sys, time

VERIF = os.path.dirname(os.path.dirname(os.path.abspath(__file__)))


def sh(cmd, cwd=None, timeout=3600):
    r = subprocess.run(cmd, shell=True, cwd=cwd, capture_output=True, text=True, timeout=timeout)
    return r.returncode, (r.stderr[-1500:] + "\n" + r.stdout[-2500:])


def main():
    d, wt, sid = os.path.abspath(sys.argv[1]), os.path.abspath(sys.argv[2]), sys.argv[3]
    rec = {"confirmed_at": time.strftime("%Y-%m-%d %H:%M:%S"), "worktree": wt}
    assert not wt.startswith("/repo") and not wt.startswith("/verif")
    sh("git checkout -- . && git clean -fdq -e _build", cwd=wt)
    rc, out = sh("git apply --check %s" % os.path.join(d, "patch.diff"), cwd=wt)
    if rc != 0:
        print("patch does not apply to the worktree:", out); return 1
    touched = subprocess.run("git apply --numstat %s" % os.path.join(d, "patch.diff"), shell=True, cwd=wt, capture_output=True, text=True).stdout
    rec["files_touched"] = [l.split("\t")[2] for l in touched.splitlines() if l.strip()]
    if any(not (f.startswith("src/") or f.startswith("include/") or f.startswith("lib/")) for f in rec["files_touched"]):
        print("patch touches files outside src/ include/ lib/:", rec["files_touched"]); return 1
    sh("git apply %s" % os.path.join(d, "patch.diff"), cwd=wt)
    rc, out = sh("cmake -G Ninja -B _build -S . > /dev/null 2>&1 && cmake --build _build -j16 2>&1 | tail -3 && ctest --test-dir _build -j8 --timeout 900 2>&1 | tail -4", cwd=wt)
    m = re.search(r"(\d+)% tests passed, (\d+) tests failed out of (\d+)", out)
    rec["ctest_with_patch"] = m.group(0) if m else out[-300:]
    if not m or m.group(1) != "100" or m.group(3) != "126":
        print("ctest with patch not green:", out[-800:]); sh("git checkout -- .", cwd=wt); return 1
    script = os.path.join(d, "build_and_run.sh")
    rc1, out1 = sh("bash %s" % script, cwd=d)
    rec["demo_with_patch"] = {"exit": rc1, "tail": out1[-600:]}
    sh("git checkout -- .", cwd=wt)
    rc0, out0 = sh("bash %s" % script, cwd=d)
    rec["demo_without_patch"] = {"exit": rc0, "tail": out0[-600:]}
    ok = rc1 != 0 and rc0 == 0
    print("ctest:", rec["ctest_with_patch"], "| demo with patch exit", rc1, "| without patch exit", rc0, "=>", "CONFIRMED" if ok else "NOT CONFIRMED")
    if not ok:
        print(out1[-800:]); print("----"); print(out0[-800:]); return 1
    dst = os.path.join(VERIF, "seeded", sid); shutil.rmtree(dst, ignore_errors=True); os.makedirs(dst)
    for fn in os.listdir(d):
        p = os.path.join(d, fn)
        if os.path.isfile(p) and os.path.getsize(p) < 2_000_000 and not fn.endswith((".o", ".out")) and not os.access(p, os.X_OK) or fn.endswith(".sh"):
            shutil.copy(p, dst)
    meta = json.load(open(os.path.join(d, "meta.json"))); meta["confirmation"] = rec; meta["seeded_id"] = sid
    json.dump(meta, open(os.path.join(dst, "meta.json"), "w"), indent=1)
    print("imported to", dst)
    return 0


if __name__ == "__main__":
    sys.exit(main())
