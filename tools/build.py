#!/usr/bin/env python3
"""Builder for the /verif runtime-monitoring harness.

Compiles the SimuCell3D translation units from the *current working tree* of the
repository (default /repo, override with VERIF_REPO for drills on scratch copies only)
together with the harness sources under /verif/harness into a content-addressed cache
(/verif/.cache).  Objects are keyed by SHA-256 of (command line, TU content, content of
every header the TU could include), so an edit under /repo triggers exactly the needed
recompiles and a flag change never reuses a stale object.

Usage (CLI):   build.py --flavour asan --config c1d0 --target vh      -> prints binary path
               build.py --prebuild quick
"""
import argparse, hashlib, os, subprocess, sys, time, fcntl, shutil, json
from concurrent.futures import ThreadPoolExecutor

VERIF = os.path.dirname(os.path.dirname(os.path.abspath(__file__)))
CACHE = os.environ.get("VERIF_CACHE", os.path.join(VERIF, ".cache"))
GUARD = "SIMUCELL3D_VERIF"
CXX = "g++"

BASE = ["-std=gnu++17", "-fopenmp", "-DNDEBUG", "-D" + GUARD, "-w"]
FLAVOURS = {
    # shipped optimisation level
    "plain": ["-O2", "-g1"],
    "asan": ["-O1", "-g1", "-fno-omit-frame-pointer", "-fsanitize=address,undefined",
             "-fsanitize=float-cast-overflow", "-fno-sanitize-recover=all",
             "-D_GLIBCXX_SANITIZE_VECTOR"],
    "asanassert": ["-O1", "-g1", "-fno-omit-frame-pointer", "-fsanitize=address,undefined",
                   "-fsanitize=float-cast-overflow", "-fno-sanitize-recover=all",
                   "-D_GLIBCXX_SANITIZE_VECTOR", "-D_GLIBCXX_ASSERTIONS"],
    "tsan": ["-O1", "-g1", "-fno-omit-frame-pointer", "-fsanitize=thread", "-DVERIF_TSAN"],
    "vg": ["-O1", "-g"],
}
LINK = {
    "plain": [], "vg": [],
    "asan": ["-fsanitize=address,undefined"],
    "asanassert": ["-fsanitize=address,undefined"],
    "tsan": ["-fsanitize=thread"],
}


def repo_dir():
    return os.environ.get("VERIF_REPO", "/repo")


def sha(*parts):
    h = hashlib.sha256()
    for p in parts:
        if isinstance(p, str):
            p = p.encode()
        h.update(p)
        h.update(b"\0")
    return h.hexdigest()


def file_hash(path):
    with open(path, "rb") as f:
        return hashlib.sha256(f.read()).hexdigest()


def tree_hash(dirs, exts=(".hpp", ".h", ".hh", ".ipp")):
    items = []
    for d in dirs:
        for root, dnames, fnames in os.walk(d):
            dnames.sort()
            for fn in sorted(fnames):
                if fn.endswith(exts):
                    p = os.path.join(root, fn)
                    items.append(p[len(d):] + ":" + file_hash(p))
    return sha(*items)


def include_dirs(repo):
    inc = []
    for root, dnames, _ in os.walk(os.path.join(repo, "include")):
        dnames.sort()
        if "python_bindings" in root:
            continue
        inc.append(root)
    inc.append(os.path.join(repo, "lib", "tinyxml2"))
    inc.append(os.path.join(repo, "lib", "delaunator", "include"))
    return inc


def repo_tus(repo):
    tus = []
    for root, dnames, fnames in os.walk(os.path.join(repo, "src")):
        dnames.sort()
        if "python_bindings" in root:
            continue
        for fn in sorted(fnames):
            if fn.endswith(".cpp"):
                tus.append(os.path.join(root, fn))
    tus.append(os.path.join(repo, "lib", "tinyxml2", "tinyxml2.cpp"))
    return tus


def config_flags(config):
    # config string "c<contact>d<dynamic>"
    c = int(config[1]); d = int(config[3])
    return ["-DSIMUCELL3D_VERIF_CONTACT_MODEL_INDEX=%d" % c,
            "-DSIMUCELL3D_VERIF_DYNAMIC_MODEL_INDEX=%d" % d]


def _compile(cmd, out):
    tmp = out + ".tmp%d" % os.getpid()
    r = subprocess.run(cmd + ["-o", tmp], capture_output=True, text=True)
    if r.returncode != 0:
        try:
            os.unlink(tmp)
        except OSError:
            pass
        return r.stderr[-6000:]
    os.replace(tmp, out)
    return None


def build(flavour="plain", config="c1d0", target="vh", quiet=True, extra_defs=()):
    """Return path of the built binary; raises RuntimeError on compile failure."""
    repo = repo_dir()
    os.makedirs(os.path.join(CACHE, "obj"), exist_ok=True)
    os.makedirs(os.path.join(CACHE, "bin"), exist_ok=True)
    lockf = open(os.path.join(CACHE, "lock.%s.%s" % (flavour, config)), "w")
    fcntl.flock(lockf, fcntl.LOCK_EX)
    try:
        incs = include_dirs(repo)
        projdef = '-DPROJECT_SOURCE_DIR="%s"' % repo
        flags = BASE + FLAVOURS[flavour] + config_flags(config) + list(extra_defs) + [projdef]
        incflags = []
        for i in incs:
            incflags += ["-I", i]
        repo_hdr_hash = tree_hash([os.path.join(repo, "include"), os.path.join(repo, "lib")])
        harness_dir = os.path.join(VERIF, "harness")
        har_hdr_hash = tree_hash([harness_dir])
        jobs = []  # (cmd, objpath)
        objs = []
        for tu in repo_tus(repo):
            rel = os.path.relpath(tu, repo)
            key = sha(" ".join(flags), rel, file_hash(tu), repo_hdr_hash, "v2")
            obj = os.path.join(CACHE, "obj", key + ".o")
            objs.append(obj)
            if not os.path.exists(obj):
                jobs.append(([CXX] + flags + incflags + ["-c", tu], obj, rel))
        if target == "vh":
            hflags = flags + ["-I", harness_dir]
            for fn in sorted(os.listdir(harness_dir)):
                if not fn.endswith(".cpp"):
                    continue
                tu = os.path.join(harness_dir, fn)
                key = sha(" ".join(hflags), "harness/" + fn, file_hash(tu), repo_hdr_hash, har_hdr_hash, "v2")
                obj = os.path.join(CACHE, "obj", key + ".o")
                objs.append(obj)
                if not os.path.exists(obj):
                    jobs.append(([CXX] + hflags + incflags + ["-c", tu], obj, "harness/" + fn))
        elif target == "main":
            tu = os.path.join(repo, "main.cpp")
            key = sha(" ".join(flags), "main.cpp", file_hash(tu), repo_hdr_hash, "v2")
            obj = os.path.join(CACHE, "obj", key + ".o")
            objs.append(obj)
            if not os.path.exists(obj):
                jobs.append(([CXX] + flags + incflags + ["-c", tu], obj, "main.cpp"))
        else:
            raise ValueError(target)
        if jobs:
            if not quiet:
                print("[build] %s/%s/%s: compiling %d TUs" % (flavour, config, target, len(jobs)), file=sys.stderr)
            t0 = time.time()
            with ThreadPoolExecutor(max_workers=int(os.environ.get("VERIF_BUILD_JOBS", "16"))) as ex:
                res = list(ex.map(lambda j: (j[2], _compile(j[0], j[1])), jobs))
            errs = [(n, e) for n, e in res if e]
            if errs:
                raise RuntimeError("compile failed:\n" + "\n".join("== %s ==\n%s" % ne for ne in errs[:3]))
            if not quiet:
                print("[build] done in %.1fs" % (time.time() - t0), file=sys.stderr)
        linkflags = ["-fopenmp"] + LINK[flavour] + ["-ldl", "-rdynamic"]
        bkey = sha(" ".join(linkflags), target, *[os.path.basename(o) for o in objs])
        bdir = os.path.join(CACHE, "bin", bkey)
        binp = os.path.join(bdir, target)
        if not os.path.exists(binp):
            os.makedirs(bdir, exist_ok=True)
            err = _compile([CXX] + objs + linkflags, binp)
            if err:
                raise RuntimeError("link failed:\n" + err)
        else:
            os.utime(binp)
        for o in objs:
            try:
                os.utime(o)
            except OSError:
                pass
        _evict()
        return binp
    finally:
        fcntl.flock(lockf, fcntl.LOCK_UN)
        lockf.close()


def _evict(limit=int(os.environ.get("VERIF_CACHE_LIMIT_MB", "6000")) * 1024 * 1024):
    """LRU eviction of the disposable cache (by mtime, which build() refreshes on use)."""
    ent = []
    total = 0
    for sub in ("obj", "bin"):
        d = os.path.join(CACHE, sub)
        for root, _, fnames in os.walk(d):
            for fn in fnames:
                p = os.path.join(root, fn)
                try:
                    st = os.stat(p)
                except OSError:
                    continue
                ent.append((st.st_mtime, st.st_size, p))
                total += st.st_size
    if total <= limit:
        return
    ent.sort()
    for mt, sz, p in ent:
        if time.time() - mt < 3600:
            break
        try:
            os.unlink(p)
            total -= sz
        except OSError:
            pass
        if total <= limit * 0.8:
            break


PREBUILD = {
    "quick": [("plain", "c1d0", "vh"), ("asan", "c1d0", "vh"), ("asan", "c1d0", "main"),
              ("plain", "c0d0", "vh"), ("plain", "c2d0", "vh"), ("plain", "c0d1", "vh"),
              ("plain", "c1d1", "vh"), ("plain", "c2d1", "vh"), ("tsan", "c1d0", "vh"), ("asanassert", "c1d0", "vh"),
              ("vg", "c1d0", "main")],
}


def main():
    ap = argparse.ArgumentParser()
    ap.add_argument("--flavour", default="plain")
    ap.add_argument("--config", default="c1d0")
    ap.add_argument("--target", default="vh")
    ap.add_argument("--prebuild")
    a = ap.parse_args()
    if a.prebuild:
        t0 = time.time()
        for fl, cf, tg in PREBUILD[a.prebuild]:
            p = build(fl, cf, tg, quiet=False)
            print("%s %s %s -> %s" % (fl, cf, tg, p))
        print("prebuild done in %.1fs" % (time.time() - t0))
        return
    print(build(a.flavour, a.config, a.target, quiet=False))


if __name__ == "__main__":
    main()
