#!/usr/bin/env python3
"""Runs the check of every seeded change (seeded/*/meta.json -> property) with tools/seedtest.py, two at a time, and records the outcome
in seeded/<id>/meta.json under "verif_result" (exit code, keys reported, wall time, /verif commit)."""
import json, os, re, subprocess, sys, glob, time
from concurrent.futures import ThreadPoolExecutor
VERIF = os.path.dirname(os.path.dirname(os.path.abspath(__file__)))
commit = subprocess.check_output(["git", "-C", VERIF, "rev-parse", "--short", "HEAD"], text=True).strip()
repo_commit = subprocess.check_output(["git", "-C", "/repo", "rev-parse", "--short", "HEAD"], text=True).strip()
only = sys.argv[1:]

def one(d):
    sid = os.path.basename(d)
    p = subprocess.run([sys.executable, os.path.join(VERIF, "tools", "seedtest.py"), d], capture_output=True, text=True)
    res = {}
    for l in p.stdout.splitlines():
        if l.startswith("{"):
            try: res = json.loads(l)
            except Exception: pass
    meta = json.load(open(os.path.join(d, "meta.json")))
    out = {}
    for c, r in res.items():
        keys = sorted(set(re.findall(r"key=([^ ]+?):? ", " ".join(r["violations"]) + " ")))
        out[c] = {"exit": r["exit"], "caught": r["exit"] == 1, "keys": keys[:8], "wall_s": r["wall_s"], "other": r.get("other", [])[:2]}
    meta["verif_result"] = {"verif_commit": commit, "repo_commit": repo_commit, "ran": "tools/seedtest.py seeded/%s (quick tier, seed 1, scratch worktree of /repo HEAD + patch.diff)" % sid, "checks": out, "at": time.strftime("%Y-%m-%d %H:%M")}
    json.dump(meta, open(os.path.join(d, "meta.json"), "w"), indent=1)
    print(sid, {c: (v["exit"], v["keys"][:2]) for c, v in out.items()}, flush=True)

dirs = sorted(d for d in glob.glob(os.path.join(VERIF, "seeded", "C*_*")) if not only or os.path.basename(d) in only)
with ThreadPoolExecutor(max_workers=3) as ex:
    list(ex.map(one, dirs))
