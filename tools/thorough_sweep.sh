#!/bin/bash
# runs the thorough tier of every check one after another and records exit code and wall time (used with `vp run`)
export VERIF_CACHE=${VERIF_CACHE:-/verif/.cache}
for id in ${@:-C05 C20 C12 C03 C18 C16 C17 C19 C02 C04 C06 C07 C11 C01 C13 C09 C08 C14 C15 C10}; do
  t0=$(date +%s)
  python3 check.py $id --tier thorough --seed ${VERIF_SEED:-1} > thorough_$id.log 2>&1
  rc=$?
  echo "$id rc=$rc wall=$(( $(date +%s) - t0 ))s $(tail -1 thorough_$id.log | cut -c1-200)"
done
