"""libFuzzer campaigns for checks/C17.py.

clang cannot compile the whole repository, but it compiles the reader translation units (mesh_reader.cpp,
parameter_reader.cpp, vec3.cpp, tinyxml2.cpp).  This module builds two libFuzzer targets (ASan+UBSan) from the
*current* tree of the repository (cached under .cache/fuzz by content hash), runs them for a given number of
executions (never for a given time) from a seed corpus made of the repository's small meshes / parameter files, and
returns statistics plus the artefact files (crash-*, timeout-*, oom-*).  The verdict on an artefact is not taken here:
checks/C17.py hands every artefact to `vh startup --mode=files` (gcc ASan build, then the uninstrumented build for
allocator artefacts), so that one rule set decides everything.
"""
import fcntl, glob, hashlib, os, re, shutil, subprocess, sys, time
from concurrent.futures import ThreadPoolExecutor

HERE = os.path.dirname(os.path.abspath(__file__))
sys.path.insert(0, HERE)
import build as builder  # noqa

SRC = os.path.join(HERE, "c17_fuzz")
CLANG = os.environ.get("VERIF_CLANGXX", "clang++")
FLAGS = ["-std=gnu++17", "-O1", "-g", "-fsanitize=fuzzer,address,undefined", "-fno-sanitize-recover=all", "-fno-sanitize=object-size",
         "-DNDEBUG", "-D" + builder.GUARD, "-w"]
TUS = ["src/io/mesh_reader.cpp", "src/io/parameter_reader.cpp", "src/math_modules/vec3.cpp", "lib/tinyxml2/tinyxml2.cpp"]
TARGETS = {"mesh": "fuzz_mesh_reader.cpp", "param": "fuzz_parameter_reader.cpp"}
MAX_LEN = {"mesh": 4096, "param": 20480}


def available():
    return shutil.which(CLANG) is not None


def build():
    """-> {"mesh": binary, "param": binary}; raises RuntimeError when a reader TU does not compile with clang."""
    repo = builder.repo_dir()
    incs = []
    for i in builder.include_dirs(repo):
        incs += ["-I", i]
    flags = FLAGS + ['-DPROJECT_SOURCE_DIR="%s"' % repo]
    hdr = builder.tree_hash([os.path.join(repo, "include"), os.path.join(repo, "lib")])
    parts = [" ".join(flags), hdr] + [builder.file_hash(os.path.join(repo, t)) for t in TUS] + [builder.file_hash(os.path.join(SRC, t)) for t in sorted(TARGETS.values())]
    key = builder.sha(*parts)[:24]
    d = os.path.join(builder.CACHE, "fuzz", key); os.makedirs(d, exist_ok=True)
    out = {k: os.path.join(d, "fuzz_" + k) for k in TARGETS}
    with open(os.path.join(builder.CACHE, "lock.fuzz"), "w") as lockf:
        fcntl.flock(lockf, fcntl.LOCK_EX)
        if all(os.path.exists(p) for p in out.values()):
            for p in out.values():
                os.utime(p)
            return out
        jobs = [(os.path.join(repo, t), os.path.join(d, os.path.basename(t) + ".o")) for t in TUS] + \
               [(os.path.join(SRC, t), os.path.join(d, t + ".o")) for t in TARGETS.values()]

        def cc(job):
            r = subprocess.run([CLANG] + flags + incs + ["-c", job[0], "-o", job[1]], capture_output=True, text=True)
            return None if r.returncode == 0 else "%s:\n%s" % (job[0], r.stderr[-3000:])
        with ThreadPoolExecutor(max_workers=6) as ex:
            errs = [e for e in ex.map(cc, jobs) if e]
        if errs:
            raise RuntimeError("clang build of the fuzz targets failed:\n" + "\n".join(errs[:2]))
        lib = [os.path.join(d, os.path.basename(t) + ".o") for t in TUS]
        for k, t in TARGETS.items():
            tmp = out[k] + ".tmp%d" % os.getpid()
            r = subprocess.run([CLANG] + FLAGS + [os.path.join(d, t + ".o")] + lib + ["-o", tmp], capture_output=True, text=True)
            if r.returncode != 0:
                raise RuntimeError("link of fuzz target %s failed:\n%s" % (k, r.stderr[-3000:]))
            os.replace(tmp, out[k])
    return out


def seed_corpus(kind, dst, extra_files):
    """Repository meshes / parameter files that fit into max_len, plus the check's own base files."""
    repo = builder.repo_dir(); os.makedirs(dst, exist_ok=True)
    src = glob.glob(os.path.join(repo, "data", "input_meshes", "*.vtk")) + glob.glob(os.path.join(repo, "test", "**", "*.vtk"), recursive=True) if kind == "mesh" \
        else glob.glob(os.path.join(repo, "parameters_*.xml")) + glob.glob(os.path.join(repo, "test", "**", "*.xml"), recursive=True)
    n = 0
    for p in sorted(src) + list(extra_files):
        try:
            sz = os.path.getsize(p)
        except OSError:
            continue
        if 0 < sz <= MAX_LEN[kind]:
            shutil.copyfile(p, os.path.join(dst, "%03d_%s" % (n, os.path.basename(p)))); n += 1
    return n


_STAT = re.compile(r"stat::(\w+):\s+(\d+)")
_COV = re.compile(r"#(\d+)\s+\w+\s+cov: (\d+) ft: (\d+) corp: (\d+)")


class Campaign:
    """Runs one target for `runs` executions in total; after an artefact the run is resumed with the remaining count
    (at most `max_restarts` times) so that a defect that is found early does not end the exploration."""

    def __init__(self, kind, binary, wd, runs, seed, extra_seeds=(), max_restarts=12):
        self.kind = kind; self.binary = binary; self.runs = runs; self.seed = seed; self.max_restarts = max_restarts
        self.dir = os.path.join(wd, "fuzz_" + kind); shutil.rmtree(self.dir, ignore_errors=True)
        self.corpus = os.path.join(self.dir, "corpus"); self.seeds = os.path.join(self.dir, "seeds"); self.art = os.path.join(self.dir, "artifacts")
        for p in (self.corpus, self.art):
            os.makedirs(p)
        self.n_seeds = seed_corpus(kind, self.seeds, extra_seeds)
        self.tmp = "/dev/shm" if os.path.isdir("/dev/shm") and os.access("/dev/shm", os.W_OK) else self.dir
        self.execs = 0; self.cov = 0; self.ft = 0; self.corp = 0; self.restarts = 0; self.log = ""; self.proc = None; self.failed = None
        self._start()

    def _start(self):
        env = dict(os.environ)
        env["ASAN_OPTIONS"] = "abort_on_error=0:detect_leaks=0:allocator_may_return_null=1:handle_abort=1"
        env["UBSAN_OPTIONS"] = "print_stacktrace=1:halt_on_error=1"
        env["C17_FUZZ_TMP"] = self.tmp
        argv = [self.binary, self.corpus, self.seeds, "-runs=%d" % max(1, self.runs - self.execs), "-seed=%d" % (self.seed + self.restarts),
                "-max_len=%d" % MAX_LEN[self.kind], "-timeout=120", "-rss_limit_mb=4096", "-malloc_limit_mb=4096", "-detect_leaks=0", "-print_final_stats=1",
                "-artifact_prefix=" + self.art + "/", "-dict=" + os.path.join(SRC, self.kind + ".dict"), "-verbosity=1"]
        self.logf = open(os.path.join(self.dir, "log.%d.txt" % self.restarts), "w")
        self.proc = subprocess.Popen(argv, stdout=subprocess.DEVNULL, stderr=self.logf, env=env, cwd=self.dir)

    def wait(self, timeout):
        t0 = time.time()
        while True:
            try:
                self.proc.wait(timeout=max(1, timeout - (time.time() - t0)))
            except subprocess.TimeoutExpired:
                self.proc.kill(); self.proc.wait(); self.failed = "fuzz target %s exceeded the wall-clock watchdog of %ds" % (self.kind, timeout)
            self.logf.close()
            text = open(self.logf.name, errors="replace").read(); self.log = text[-4000:]
            st = dict((k, int(v)) for k, v in _STAT.findall(text))
            done = st.get("number_of_executed_units")
            covs = _COV.findall(text)
            if covs:
                if done is None:
                    done = int(covs[-1][0])
                self.cov = max(self.cov, int(covs[-1][1])); self.ft = max(self.ft, int(covs[-1][2])); self.corp = max(self.corp, int(covs[-1][3]))
            self.execs += done or 0
            if self.failed or self.proc.returncode == 0 or self.execs >= self.runs:
                break
            if not done and not glob.glob(os.path.join(self.art, "*")):
                self.failed = "fuzz target %s exited with %s before executing anything:\n%s" % (self.kind, self.proc.returncode, self.log[-1500:]); break
            if self.restarts >= self.max_restarts:
                break
            self.restarts += 1; self._start()
        for p in glob.glob(os.path.join(self.tmp, "c17_fuzz_%s_*" % self.kind)):
            try:
                os.unlink(p)
            except OSError:
                pass
        return self

    def artifacts(self):
        return sorted(glob.glob(os.path.join(self.art, "*")), key=lambda p: (os.path.getsize(p), p))

    def stats(self):
        return {"executions": self.execs, "requested": self.runs, "edges_covered": self.cov, "features": self.ft, "corpus_units": self.corp, "seed_files": self.n_seeds,
                "restarts_after_artifact": self.restarts, "artifacts": len(self.artifacts())}


if __name__ == "__main__":
    b = build(); print(b)
    wd = sys.argv[1] if len(sys.argv) > 1 else "/tmp/c17_fuzz_try"; os.makedirs(wd, exist_ok=True)
    n = int(sys.argv[2]) if len(sys.argv) > 2 else 5000
    cs = [Campaign(k, b[k], wd, n, 1) for k in TARGETS]
    for c in cs:
        c.wait(3600); print(c.kind, c.stats(), c.failed); print(c.log[-800:])
